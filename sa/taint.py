"""E5 — taint + interval analysis over the terms and path conditions produced by the abstract interpreter.

Sources: results of read primitives (full range of their type, tainted), integer parameters and integer
struct fields on the reader side (input-derived: treated as tainted top).  Intervals are propagated
through casts and arithmetic, refined by the path's comparison atoms (syntactic match on the compared
terms).  Sinks are the interpreter's `assert` effects (overflow / bounds / division checks of the dev
profile), `alloc` effects, panics, and unwraps.
"""
from . import absint
from .absint import is_agg, agg_field

RANGES = absint.Interp.INT_RANGE
INF = 10 ** 40


def ty_range(ty):
    return RANGES.get(ty, (-INF, INF))


def is_read_ret(t):
    return t[0] == 'ret' and isinstance(t[2], str) and (t[2].startswith('byteorder::ReadBytesExt::read_'))


def tainted(t):
    for s in absint.subterms(t):
        if not isinstance(s, tuple) or not s:
            continue
        if is_read_ret(s):
            return True
        if s[0] in ('param',) or s[0] == 'load' or s[0] == 'lv':
            return True
    return False


def input_derived(t):
    """stronger notion used for reporting: contains a read primitive's result, a parameter or a field load"""
    return tainted(t)


class Intervals:
    def __init__(self, cons, param_types=None):
        self.cons = cons
        self.param_types = param_types or {}

    def refine(self, t, lo, hi, depth=0):
        if depth > 2:
            return lo, hi
        for c, v in self.cons:
            if c[0] == 'discr' and c[1][0] == 'get' and v == 1 and c[1][2] == t:
                hi = min(hi, 2 ** 63 - 2)       # slice::get(i) is Some  =>  i < len <= isize::MAX
                lo = max(lo, 0)
                continue
            if c[0] != 'bin' or c[1] not in ('Lt', 'Le', 'Gt', 'Ge', 'Eq', 'Ne'):
                continue
            truth = None
            if isinstance(v, int):
                truth = (v != 0)
            elif isinstance(v, tuple) and v[0] == 'not':
                truth = True if v[1] == (0,) else (False if v[1] == (1,) else None)
            if truth is None:
                continue
            op = c[1]
            if not truth:
                op = {'Lt': 'Ge', 'Le': 'Gt', 'Gt': 'Le', 'Ge': 'Lt', 'Eq': 'Ne', 'Ne': 'Eq'}[op]
            a, b = c[2], c[3]
            if a == t:
                blo, bhi = self.of(b, c[4], depth + 1)[:2]
                if op == 'Lt':
                    hi = min(hi, bhi - 1)
                elif op == 'Le':
                    hi = min(hi, bhi)
                elif op == 'Gt':
                    lo = max(lo, blo + 1)
                elif op == 'Ge':
                    lo = max(lo, blo)
                elif op == 'Eq':
                    lo, hi = max(lo, blo), min(hi, bhi)
            elif b == t:
                alo, ahi = self.of(a, c[4], depth + 1)[:2]
                if op == 'Lt':
                    lo = max(lo, alo + 1)
                elif op == 'Le':
                    lo = max(lo, alo)
                elif op == 'Gt':
                    hi = min(hi, ahi - 1)
                elif op == 'Ge':
                    hi = min(hi, ahi)
                elif op == 'Eq':
                    lo, hi = max(lo, alo), min(hi, ahi)
        return lo, hi

    def of(self, t, ty=None, depth=0):
        """(lo, hi, tainted)"""
        k = t[0]
        if k == 'int':
            return t[1], t[1], False
        if k == 'bool':
            return int(t[1]), int(t[1]), False
        lo, hi = ty_range(ty) if ty else (-INF, INF)
        tn = False
        if k == 'ret':
            name = t[2] if isinstance(t[2], str) else ''
            if name.startswith('byteorder::ReadBytesExt::read_'):
                lo, hi = ty_range(name.split('read_')[-1])
                tn = True
            else:
                tn = True
        elif k == 'cast':
            alo, ahi, tn = self.of(t[1], t[2], depth)
            flo, fhi = ty_range(t[2])
            alo, ahi = max(alo, flo), min(ahi, fhi)
            tlo, thi = ty_range(t[3])
            if alo >= tlo and ahi <= thi:
                lo, hi = alo, ahi
            else:
                lo, hi = tlo, thi
        elif k == 'bin':
            op = t[1]
            alo, ahi, ta = self.of(t[2], t[4], depth)
            blo, bhi, tb = self.of(t[3], t[4], depth)
            tn = ta or tb
            if op == 'Add':
                lo, hi = alo + blo, ahi + bhi
            elif op == 'Sub':
                lo, hi = alo - bhi, ahi - blo
            elif op == 'Mul':
                c = [alo * blo, alo * bhi, ahi * blo, ahi * bhi]
                lo, hi = min(c), max(c)
            elif op == 'Div' and blo == bhi and blo > 0:
                lo, hi = -(-alo // blo) if alo < 0 else alo // blo, ahi // blo if ahi >= 0 else -(-ahi // blo)
                lo, hi = min(lo, hi), max(lo, hi)
            elif op in ('Lt', 'Le', 'Gt', 'Ge', 'Eq', 'Ne'):
                lo, hi = 0, 1
            tlo, thi = ty_range(t[4])
            # the value exists only if the checked operation did not overflow
            lo, hi = max(lo, tlo), min(hi, thi)
        elif k == 'from':
            lo, hi, tn = self.of(t[1], None, depth)          # widening integer conversion
        elif k == 'tryfrom':
            alo, ahi, tn = self.of(t[1], None, depth)
            tlo, thi = ty_range(t[2])
            lo, hi = max(alo, tlo), min(ahi, thi)           # the value exists only when it fits
        elif k in ('sat', 'wrap'):
            tlo, thi = ty_range(t[4])
            alo, ahi, ta = self.of(t[2], t[4], depth)
            blo, bhi, tb = self.of(t[3], t[4], depth)
            tn = ta or tb
            if k == 'sat':
                if t[1] == 'Add':
                    lo, hi = alo + blo, ahi + bhi
                elif t[1] == 'Sub':
                    lo, hi = alo - bhi, ahi - blo
                else:
                    c = [alo * blo, alo * bhi, ahi * blo, ahi * bhi]
                    lo, hi = min(c), max(c)
                lo, hi = min(max(lo, tlo), thi), max(min(hi, thi), tlo)
            else:
                lo, hi = tlo, thi
        elif k in ('imin', 'imax'):
            alo, ahi, ta = self.of(t[1], t[3], depth)
            blo, bhi, tb = self.of(t[2], t[3], depth)
            tn = ta or tb
            if k == 'imin':
                lo, hi = min(alo, blo), min(ahi, bhi)
            else:
                lo, hi = max(alo, blo), max(ahi, bhi)
        elif k == 'len':
            lo, hi = 0, 2 ** 63 - 1
            tn = True
            # every element of slice.windows(n) has exactly n items
            x = t[1]
            while x[0] in ('deref', 'load', 'at') and isinstance(x[1], tuple):
                if x[0] in ('load', 'at'):
                    root = x[1][0]
                    if root[0] == 'T' and not x[1][1]:
                        x = root[1]
                        continue
                    break
                x = x[1]
            if x[0] in ('elem', 'elemref') and x[1][0] == 'windows' and x[1][2][0] == 'int':
                lo = hi = x[1][2][1]
                tn = False
        elif k in ('load', 'lv', 'proj', 'param', 'unwrap_or', 'app', 'elem', 'upd'):
            tn = True
            if k == 'param' and t[1] in self.param_types:
                lo, hi = ty_range(self.param_types[t[1]])
        else:
            tn = True
        lo, hi = self.refine(t, lo, hi, depth)
        return lo, hi, tn


import re as _re


def describe(t, limit=110):
    from . import affine
    s_ = absint.term_str(affine.strip_sites(t))
    s_ = _re.sub(r'L\d+\._\d+', 'local', s_)
    return s_[:limit]


def leaves(t):
    """input-derived leaves of a term, by role: read primitive type, parameter, last field name of a load, loop variable"""
    out = set()
    st = [t]
    while st:
        x = st.pop()
        if not isinstance(x, tuple) or not x:
            continue
        k = x[0]
        if k == 'ret':
            nm = x[2] if len(x) > 2 and isinstance(x[2], str) else (x[1] if isinstance(x[1], str) else '?')
            out.add('ret<%s>' % nm.split('::')[-1])
            continue
        if k == 'param':
            out.add('arg%d' % x[1])
            continue
        if k in ('load', 'at', 'ptr_at'):
            fs = [e[1] for e in x[1][1] if e[0] == 'f']
            out.add('field:%s' % (fs[-1] if fs else '?'))
            for e in x[1][1]:
                if e[0] == 'i':
                    st.append(e[1])
            root = x[1][0]
            if root[0] == 'T' and root[1][0] in ('elem', 'elemref'):
                out.add('elem')
            continue
        if k == 'lv':
            fs = x[2].split('.')
            out.add('loopvar:%s' % (fs[-1] if len(fs) > 1 and not fs[-1].startswith('_') else 'local'))
            continue
        if k == 'len':
            out.add('len')
            continue
        if k == 'int':
            continue
        for y in x[1:]:
            if isinstance(y, tuple):
                st.append(y)
    return sorted(out)


def consts(t):
    return sorted(set(str(x[1]) for x in (t if isinstance(t, (list, tuple)) else []) if isinstance(x, tuple) and x and x[0] == 'int'))


def sink_fn(site):
    return site[-1][0] if site else '?'


class Sink:
    def __init__(self, kind, fn, op, role, site, detail, hazard, tainted_):
        self.kind = kind          # arith / index / alloc / panic / unwrap / div
        self.fn = fn
        self.op = op
        self.role = role
        self.site = site
        self.detail = detail
        self.hazard = hazard      # True when the interval analysis cannot exclude the failure
        self.tainted = tainted_
        self.keyrole = None

    def key(self):
        return "%s|%s|%s" % (self.fn, self.op, self.keyrole or self.role)


def sinks_of_path(p, param_types, F=None):
    """yield Sink for every panic-capable site executed on this abstract path"""
    iv = Intervals(p.cons, param_types)

    def walk(effs, cons_extra):
        for e in effs:
            if e[0] == 'loop':
                for b in e[3]:
                    sub = Intervals(p.cons + b['cons'], param_types)
                    for x in walk_with(b['eff'], sub):
                        yield x
            else:
                for x in one(e, iv):
                    yield x

    def walk_with(effs, ivx):
        for e in effs:
            if e[0] == 'loop':
                for b in e[3]:
                    sub = Intervals(ivx.cons + b['cons'], param_types)
                    for x in walk_with(b['eff'], sub):
                        yield x
            else:
                for x in one(e, ivx):
                    yield x

    def one(e, ivx):
        if e[0] == 'assert':
            msg, cond, expected, mops, site, fn = e[1], e[2], e[3], e[4], e[5], e[6]
            if msg.startswith('Overflow:'):
                op = msg.split(':')[1]
                a, b = mops
                ty = cond[4] if cond[0] == 'ovf' else None
                alo, ahi, ta = ivx.of(a, ty)
                blo, bhi, tb = ivx.of(b, ty)
                tlo, thi = ty_range(ty) if ty else (-INF, INF)
                if op == 'Add':
                    rlo, rhi = alo + blo, ahi + bhi
                elif op == 'Sub':
                    rlo, rhi = alo - bhi, ahi - blo
                elif op == 'Mul':
                    c = [alo * blo, alo * bhi, ahi * blo, ahi * bhi]
                    rlo, rhi = min(c), max(c)
                else:
                    rlo, rhi = -INF, INF
                hazard = rlo < tlo or rhi > thi
                sk = Sink('arith', fn, "%s in %s" % (op, ty), "%s(%s, %s)" % (op, describe(a, 60), describe(b, 60)), site,
                          "operands in [%s, %s] and [%s, %s]" % (fmt(alo), fmt(ahi), fmt(blo), fmt(bhi)), hazard, ta or tb)
                cs = [str(x[1]) for x in (a, b) if x[0] == 'int']
                sk.keyrole = "%s%s" % ("+".join(sorted(set(leaves(a) + leaves(b)))), (" const " + ",".join(cs)) if cs else "")
                yield sk
            elif msg == 'BoundsCheck':
                ln, idx = mops
                ilo, ihi, ti = ivx.of(idx, 'usize')
                llo, lhi, tl = ivx.of(ln, 'usize')
                hazard = not (ihi < llo)
                # the index is the variable of `for i in 0..c.len()` and c is what is indexed
                if idx[0] == 'elem' and absint.is_agg(idx[1]) and idx[1][1].startswith('std::ops::Range'):
                    st_, en_ = absint.agg_field(idx[1], 'start'), absint.agg_field(idx[1], 'end')
                    if en_ is not None and en_[0] == 'cast':
                        en_ = en_[1]
                    lnc = ln[1] if ln[0] == 'len' else None
                    if lnc is not None and lnc[0] == 'upd':
                        lnc = lnc[1]            # element stores do not change the length
                    if st_ is not None and st_[0] == 'int' and st_[1] >= 0 and en_ is not None and en_[0] == 'len' and lnc is not None:
                        from . import affine as _aff
                        if en_[1] == lnc or _aff.canon_coll(en_[1]) == _aff.canon_coll(lnc):
                            hazard = False
                # relational guard: idx < len asserted on the path
                from . import affine

                def same_len(x):
                    return x == ln or (x[0] == 'len' and ln[0] == 'len' and affine.canon_coll(x) == affine.canon_coll(ln)) or \
                        affine.canon_coll(x) == affine.canon_coll(ln)
                for c, v in ivx.cons:
                    if c[0] != 'bin' or c[1] not in ('Lt', 'Le'):
                        continue
                    for x in (c[2], c[3]):
                        if same_len(x) and absint.holds(ivx.cons, '<', idx, x):
                            hazard = False
                sk = Sink('index', fn, 'index', "[%s] of len %s" % (describe(idx, 50), describe(ln, 50)), site,
                          "index in [%s, %s], length in [%s, %s]" % (fmt(ilo), fmt(ihi), fmt(llo), fmt(lhi)), hazard, ti or tl)
                sk.keyrole = "idx " + "+".join(leaves(idx)) + " len " + "+".join(leaves(ln))
                yield sk
            elif msg in ('DivisionByZero', 'RemainderByZero'):
                d = mops[0]
                lo, hi, tn = ivx.of(d)
                yield Sink('div', fn, msg, describe(d, 60), site, "divisor in [%s, %s]" % (fmt(lo), fmt(hi)), lo <= 0 <= hi, tn)
            elif msg == 'OverflowNeg':
                yield Sink('arith', fn, 'Neg', describe(mops[0], 60), site, "", True, tainted(mops[0]))
            # pointer-check asserts (MisalignedPointerDereference / NullPointerDereference) are debug UB checks on
            # compiler-generated code paths (vec! expansion), not input dependent
        elif e[0] == 'alloc':
            what, n, site, fn, ty = e[1], e[2], e[3], e[4], e[5]
            lo, hi, tn = ivx.of(n, 'usize')
            neg = False
            for s in absint.subterms(n):
                if isinstance(s, tuple) and s and s[0] == 'cast' and s[2] in ('i32', 'i64', 'isize', 'i16', 'i8') and s[3] in ('usize', 'u64', 'u32'):
                    slo, shi, _ = ivx.of(s[1], s[2])
                    if slo < 0:
                        neg = True
            sk = Sink('alloc', fn, what, "%s(%s)" % (what, describe(n, 80)), site,
                      "requested element count in [%s, %s]%s" % (fmt(lo), fmt(hi), "; a negative count becomes a huge usize" if neg else ""),
                      hi > 2 ** 16, tn)
            sk.keyrole = "+".join(leaves(n)) or "const"
            sk.neg = neg
            yield sk
        elif e[0] == 'maypanic':
            yield Sink('unwrap', e[4], e[1].split('::')[-1], describe(e[2], 60), e[3], "unwrap/expect on a value not known to be Some/Ok", True,
                       tainted(e[2]))
        elif e[0] == 'panic':
            macs = e[4] if len(e) > 4 else ()
            yield Sink('panic', e[3], 'panic', ",".join(macs) or e[1].split('::')[-1], e[2], "reachable panic", True, True)

    for x in walk(p.eff, ()):
        yield x


def fmt(v):
    if v <= -INF:
        return "-inf"
    if v >= INF:
        return "+inf"
    if abs(v) >= 2 ** 31 - 1:
        for name, val in (("i32::MAX", 2 ** 31 - 1), ("i32::MIN", -2 ** 31), ("u32::MAX", 2 ** 32 - 1), ("isize::MAX", 2 ** 63 - 1),
                          ("usize::MAX", 2 ** 64 - 1), ("i64::MIN", -2 ** 63)):
            if v == val:
                return name
        return "%.3g" % v
    return str(v)
