"""Affine (linear) forms over symbolic counts, and byte counts of effect trees (engine E2).

A linear form is a dict {symbol: coefficient} with the constant under the key ().  Symbols are
site-stripped terms such as ('len', <collection>) or ('sum', <iterator>, <per-element term>).
Equality of two forms is coefficient equality — no solving.
"""
from . import absint


class NotAffine(Exception):
    pass


def strip_sites(t):
    """Remove call-site identifiers from a term so that the same quantity computed at two places
    compares equal structurally."""
    if not isinstance(t, tuple) or not t:
        return t
    k = t[0]
    if k in ('elemref', 'elem', 'next') and len(t) == 3:
        return (k, strip_sites(t[1]))
    if k in ('elemref', 'elem', 'next') and len(t) == 2:
        return (k, strip_sites(t[1]))
    if k == 'ret':
        return ('ret', t[2]) if len(t) > 2 else t
    if k == 'lv':
        return t
    if k == 'closure':
        return ('closure', t[1], tuple(strip_sites(x) for x in t[2]))
    return tuple(strip_sites(x) if isinstance(x, tuple) else x for x in t)


def canon_coll(t):
    """Canonical collection term: a Vec and its slice view are the same collection."""
    t = strip_sites(t)
    while isinstance(t, tuple) and t and t[0] == 'deref' and isinstance(t[1], tuple) and t[1][0] == 'ref':
        t = ('at', t[1][1])
    return _load_to_at(t)


def _load_to_at(t):
    if not isinstance(t, tuple) or not t:
        return t
    if t[0] == 'load' and len(t) == 2:
        return ('at', _load_to_at(t[1]))
    if t[0] == 'deref' and len(t) == 2 and isinstance(t[1], tuple):
        return ('at', (('T', _load_to_at(t[1])), ()))
    return tuple(_load_to_at(x) if isinstance(x, tuple) else x for x in t)


def add(a, b, kb=1):
    out = dict(a)
    for k, v in b.items():
        out[k] = out.get(k, 0) + kb * v
        if out[k] == 0 and k != ():
            del out[k]
    return out


def scale(a, c):
    return {k: v * c for k, v in a.items() if v * c != 0 or k == ()}


def const(c):
    return {(): c}


def is_const(a):
    return all(k == () for k in a)


def lin(t):
    """term -> linear form (raises NotAffine)"""
    k = t[0]
    if k == 'int':
        return const(t[1])
    if k == 'cast':
        return lin(t[1])
    if k in ('sat', 'tryfrom'):
        # exact value of a saturating / checked operation (they differ from it only outside the type's range,
        # which the sizes of a conformant file never reach)
        if k == 'tryfrom':
            return lin(t[1])
        return lin(('bin', t[1], t[2], t[3], t[4]))
    if k == 'bin':
        op = t[1]
        if op == 'Add':
            return add(lin(t[2]), lin(t[3]))
        if op == 'Sub':
            return add(lin(t[2]), lin(t[3]), -1)
        if op == 'Mul':
            a, b = lin(t[2]), lin(t[3])
            if is_const(a):
                return scale(b, a.get((), 0))
            if is_const(b):
                return scale(a, b.get((), 0))
            raise NotAffine("product of two non-constant terms: %s" % absint.term_str(t))
        if op == 'Div':
            a, b = lin(t[2]), lin(t[3])
            if is_const(b) and b.get((), 0) != 0:
                d = b[()]
                if all(v % d == 0 for v in a.values()):
                    return {kk: v // d for kk, v in a.items()}
                return {strip_sites(t): 1, (): 0}       # inexact: keep the quotient as one symbol
            return {strip_sites(t): 1, (): 0}
        raise NotAffine("operator %s" % op)
    if k == 'len':
        return {('len', canon_coll(t[1])): 1, (): 0}
    if k == 'sum':
        # Σ_{e in iter} body(e)
        body = lin(t[2])
        base = strip_sites(t[1])
        coll = base[1] if base[0] == 'iter' else base
        out = {(): 0}
        for sym, c in body.items():
            if sym == ():
                if c:
                    out = add(out, {('len', canon_coll(coll)): c})
            else:
                out = add(out, {('sum', canon_coll(coll), sym): c})
        return out
    return {strip_sites(t): 1, (): 0}


def show(a):
    parts = []
    for k, v in sorted(a.items(), key=lambda kv: repr(kv[0])):
        if k == ():
            if v or len(a) == 1:
                parts.append(str(v))
        else:
            parts.append("%d*%s" % (v, absint.term_str(k)))
    return " + ".join(parts) if parts else "0"


def eq(a, b):
    ka = {k: v for k, v in a.items() if v or k == ()}
    kb = {k: v for k, v in b.items() if v or k == ()}
    ka.setdefault((), 0)
    kb.setdefault((), 0)
    return ka == kb


def trip_count(info):
    """Linear form of the number of iterations of a `for` loop from its iterator term."""
    if info.get('kind') != 'for':
        raise NotAffine("loop at %s is not a for loop over a known iterator" % absint.site_str(info['site']))
    it = strip_sites(info['iter'])
    while it[0] == 'map':
        it = it[1]
    if it[0] == 'iter':
        return {('len', canon_coll(it[1])): 1, (): 0}
    if it[0] == 'agg' and it[1].startswith('std::ops::Range'):
        start = absint.agg_field(it, 'start')
        end = absint.agg_field(it, 'end')
        return add(lin(end), lin(start), -1)
    if it[0] == 'zip':
        a = trip_count({'kind': 'for', 'iter': it[1], 'site': info['site']})
        return a
    raise NotAffine("iterator %s has no known length" % absint.term_str(it))


def bytes_of(effs, direction):
    """Linear form of the number of bytes transferred by an effect list (direction 'write'/'read').
    A loop contributes Σ over its iterations; all alternatives of a body must transfer the same amount."""
    total = {(): 0}
    for e in effs:
        if e[0] == 'io':
            kind = e[1]
            if direction == 'write' and kind in ('write', 'write_all') or direction == 'read' and kind in ('read', 'read_exact'):
                w = e[3].get('width')
                if w is None:
                    raise NotAffine("I/O primitive of unknown width at %s" % absint.site_str(e[5]))
                total = add(total, const(w))
        elif e[0] == 'loop':
            info, bodies = e[2], e[3]
            per = None
            for b in bodies:
                bb = bytes_of(b['eff'], direction)
                if per is None:
                    per = bb
                elif not eq(per, bb):
                    raise NotAffine("alternatives of loop body at %s transfer different amounts: %s vs %s"
                                    % (absint.site_str(info['site']), show(per), show(bb)))
            if per is None or (is_const(per) and per.get((), 0) == 0):
                continue
            n = trip_count(info)
            # Σ_{iterations} per(e): constant part times trip count; element-dependent symbols become sums
            if is_const(per):
                total = add(total, scale(n, per[()]))
            else:
                it = strip_sites(info['iter'])
                while it[0] == 'map':
                    it = it[1]
                coll = canon_coll(it[1]) if it[0] == 'iter' else it
                for sym, c in per.items():
                    if sym == ():
                        if c:
                            total = add(total, scale(n, c))
                    else:
                        total = add(total, {('sum', coll, sym): c})
    return total
