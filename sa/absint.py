"""Path-sensitive abstract interpreter over MIR facts (shared core of engines E1, E2, E3, E4, E5).

This is an abstract interpretation, not an execution: values are *terms* over symbols (parameters,
initial heap contents, results of opaque calls, loop variables); every loop is analysed once for an
arbitrary iteration with its loop-carried locations replaced by fresh symbols (widening to top in
one step); unknown branches fork the abstract state; nothing is handed to a solver and no concrete
input is ever supplied.  The result for a function is the finite set of its abstract paths, each
with: the path condition (branch atoms), the ordered list of effects (I/O primitives with receiver
and value terms, stores to caller-visible memory, opaque calls, loop summaries, assertions, panics)
and the term of the returned value.

Terms (hashable tuples)
  ('int', v) ('f64', repr) ('bool', b) ('str', s) ('unit',) ('zst', ty)
  ('param', i)                         i-th argument of the analysed function
  ('ref', path)                        pointer to an abstract location
  ('load', path)                       initial content of a location not written on this path
  ('agg', adt, variant, vi, ((field, term), ...))
  ('closure', key, (captures...))      ('fnitem', path, key-or-None)
  ('bin', op, a, b, ty) ('ovf', op, a, b, ty) ('un', op, a) ('cast', a, from, to)
  ('discr', term) ('proj', term, proj) ('upd', base, ((proj, term), ...)) ('len', term)
  ('ret', site, def)                   result of an opaque call / primitive
  ('err', site)                        error payload of the call site chosen to fail
  ('lv', loopid, pathstr)              loop-carried location at the start of an arbitrary iteration
  ('elem', iter_term, site)            element produced by Iterator::next at `site`
  iterator algebra: ('iter', coll) ('map', it, f) ('zip', a, b) ('windows', coll, n) ...
Paths: (root, proj) with root = ('L', frame_id, local) | ('T', pointer_term); proj = tuple of
  ('f', name) ('v', variant) ('i', term) ('ci', off, from_end) ('ss', from, to, from_end)
"""
import re

from . import mir

MAX_PATHS = 6000
MAX_DEPTH = 48


class Unanalysable(Exception):
    pass


# ---------------------------------------------------------------------------------------------
# term helpers

def INT(v):
    return ('int', int(v))


UNIT = ('unit',)


def agg(adt, variant, vi, fields):
    return ('agg', adt, variant, vi, tuple(fields))


def OK(v):
    return agg('std::result::Result', 'Ok', 0, (('0', v),))


def ERR(v):
    return agg('std::result::Result', 'Err', 1, (('0', v),))


def SOME(v):
    return agg('std::option::Option', 'Some', 1, (('0', v),))


NONE = agg('std::option::Option', 'None', 0, ())


def is_agg(t, adt=None, variant=None):
    return (isinstance(t, tuple) and t and t[0] == 'agg' and (adt is None or t[1] == adt)
            and (variant is None or t[2] == variant))


def agg_field(t, name):
    for k, v in t[4]:
        if k == name:
            return v
    return None


def subterms(t):
    """all sub-terms of t (including t)"""
    out = []
    st = [t]
    while st:
        x = st.pop()
        out.append(x)
        if isinstance(x, tuple):
            for y in x:
                if isinstance(y, tuple):
                    st.append(y)
    return out


def contains(t, needle):
    if t == needle:
        return True
    if isinstance(t, tuple):
        for y in t:
            if isinstance(y, tuple) and contains(y, needle):
                return True
    return False


CMP_OPS = ('Eq', 'Ne', 'Lt', 'Le', 'Gt', 'Ge')


def _operand_key(t):
    # constants last, otherwise a stable structural order
    return (1 if t[0] in ('int', 'f64', 'bool', 'constref') else 0, repr(t))


def eval_with(t, env):
    """value of an integer / boolean term when the terms in env have the given values; None when that does not determine it"""
    if not isinstance(t, tuple) or not t:
        return None
    if t in env:
        return env[t]
    k = t[0]
    if k == 'int':
        return t[1]
    if k == 'bool':
        return int(t[1])
    if k == 'cast':
        return eval_with(t[1], env)
    if k == 'un' and t[1] == 'Not':
        a = eval_with(t[2], env)
        return None if a is None else int(not a)
    if k == 'bin' and len(t) >= 4:
        a, b = eval_with(t[2], env), eval_with(t[3], env)
        if a is None or b is None:
            return None
        op = t[1]
        if op in ('BitAnd', 'BitOr'):
            return int(bool(a) and bool(b)) if op == 'BitAnd' else int(bool(a) or bool(b))
        if op in ('Add', 'Sub', 'Mul'):
            return a + b if op == 'Add' else a - b if op == 'Sub' else a * b
        if op in ('Lt', 'Le', 'Eq', 'Ne', 'Gt', 'Ge'):
            return int({'Lt': a < b, 'Le': a <= b, 'Eq': a == b, 'Ne': a != b, 'Gt': a > b, 'Ge': a >= b}[op])
    return None


def cmp_atom(op, a, b, ty):
    """Canonical comparison atom: `a > b` is `b < a`, `a >= b` is `b <= a` (exact for floats too, NaN included), and the
    operands of == / != are put in a fixed order.  Whichever way round the source spells a comparison, the interpreter
    produces the same atom, so rules are written against {Lt, Le, Eq, Ne} only."""
    if op == 'Gt':
        op, a, b = 'Lt', b, a
    elif op == 'Ge':
        op, a, b = 'Le', b, a
    elif op in ('Eq', 'Ne') and _operand_key(b) < _operand_key(a):
        a, b = b, a
    return ('bin', op, a, b, ty)


def holds(cons, op, a, b, float_ok=False):
    """True when the path constraints `cons` contain the fact `a op b` (op in '<', '<=', '==', '!=', or '!<' / '!<=' for a
    comparison known to be false), in either of its canonical spellings: `a < b` true, or (integers only) `b <= a` false."""
    def truth(v):
        return (v != 0) if isinstance(v, int) else True
    for t, v in cons:
        if t[0] != 'bin' or t[1] not in CMP_OPS:
            continue
        isf = str(t[4]).startswith('f')
        tv = truth(v)
        o, x, y = t[1], t[2], t[3]
        if op == '<':
            if (o == 'Lt' and tv and x == a and y == b) or (o == 'Le' and not tv and x == b and y == a and (float_ok or not isf)):
                return True
        elif op == '<=':
            if (o == 'Le' and tv and x == a and y == b) or (o == 'Lt' and not tv and x == b and y == a and (float_ok or not isf)):
                return True
        elif op == '!<':
            if (o == 'Lt' and not tv and x == a and y == b) or (o == 'Le' and tv and x == b and y == a):
                return True
        elif op == '!<=':
            if (o == 'Le' and not tv and x == a and y == b) or (o == 'Lt' and tv and x == b and y == a):
                return True
        elif op in ('==', '!='):
            if {x, y} == {a, b} or (x == a and y == b) or (x == b and y == a):
                if (o == 'Eq' and tv == (op == '==')) or (o == 'Ne' and tv == (op == '!=')):
                    return True
    return False


def term_str(t, depth=0):
    if not isinstance(t, tuple) or not t:
        return repr(t)
    k = t[0]
    if depth > 9:
        return '…'
    d = depth + 1
    if k == 'int':
        return str(t[1])
    if k in ('f64', 'bool', 'str'):
        return repr(t[1])
    if k == 'unit':
        return '()'
    if k == 'param':
        return 'arg%d' % t[1]
    if k == 'ref':
        return '&' + path_str(t[1], d)
    if k == 'load':
        return path_str(t[1], d)
    if k == 'agg':
        nm = t[1].split('::')[-1] + ('::' + t[2] if t[2] else '')
        return '%s{%s}' % (nm, ', '.join('%s: %s' % (f, term_str(v, d)) for f, v in t[4]))
    if k == 'bin':
        return '%s(%s, %s)' % (t[1], term_str(t[2], d), term_str(t[3], d))
    if k == 'ovf':
        return 'ovf%s(%s, %s)' % (t[1], term_str(t[2], d), term_str(t[3], d))
    if k == 'un':
        return '%s(%s)' % (t[1], term_str(t[2], d))
    if k == 'cast':
        return '(%s as %s)' % (term_str(t[1], d), t[3])
    if k == 'discr':
        return 'discr(%s)' % term_str(t[1], d)
    if k == 'proj':
        return '%s%s' % (term_str(t[1], d), proj_str(t[2], d))
    if k == 'len':
        return 'len(%s)' % term_str(t[1], d)
    if k == 'ret':
        if len(t) == 2:
            return 'ret<%s>' % t[1].split('::')[-1]
        return 'ret<%s@%s>' % (t[2].split('::')[-1], site_str(t[1]))
    if k == 'err':
        return 'err@%s' % site_str(t[1])
    if k == 'lv':
        return 'lv<%s>' % t[2]
    if k == 'elem':
        return 'elem(%s)' % term_str(t[1], d)
    if k == 'at':
        return path_str(t[1], d)
    if k == 'ptr_at':
        return path_str(t[1], d)
    if k == 'elemref':
        return '&elem(%s)' % term_str(t[1], d)
    if k == 'elem':
        return 'elem(%s)' % term_str(t[1], d)
    if k == 'iter':
        return 'iter(%s)' % term_str(t[1], d)
    if k == 'next':
        return 'next(%s)' % term_str(t[1], d)
    if k == 'sum':
        return 'sum(%s | %s)' % (term_str(t[1], d), term_str(t[2], d))
    if k == 'map':
        return 'map(%s, %s)' % (term_str(t[1], d), term_str(t[2], d))
    if k == 'deref':
        return '*' + term_str(t[1], d)
    if k == 'app':
        return '%s(%s)' % (t[1].split('::')[-1], ', '.join(term_str(x, d) for x in t[2]))
    if k in ('checked', 'sat', 'wrap'):
        return '%s%s(%s, %s)' % (k, t[1], term_str(t[2], d), term_str(t[3], d))
    if k == 'tryfrom':
        return '(%s try_as %s)' % (term_str(t[1], d), t[2])
    if k in ('imin', 'imax'):
        return '%s(%s, %s)' % (k[1:], term_str(t[1], d), term_str(t[2], d))
    if k == 'closure':
        return 'closure<%s>' % t[1].split('::')[-1]
    if k == 'fnitem':
        return 'fn<%s>' % t[1]
    return '%s(%s)' % (k, ', '.join(term_str(x, d) if isinstance(x, tuple) else repr(x) for x in t[1:]))


def site_str(site):
    return '/'.join('%s:bb%d' % (fn.split('::')[-1][:40], b) for fn, b in site)


def proj_str(proj, depth=0):
    s = ''
    for e in proj:
        if e[0] == 'f':
            s += '.' + e[1]
        elif e[0] == 'v':
            s += '<%s>' % e[1]
        elif e[0] == 'vp':
            s += '.<payload>'
        elif e[0] == 'range':
            r = e[1]
            a = agg_field(r, 'start') if is_agg(r) else None
            b = agg_field(r, 'end') if is_agg(r) else None
            s += '[%s..%s]' % (term_str(a, depth + 1) if a else '', term_str(b, depth + 1) if b else '')
        elif e[0] == 'i':
            s += '[%s]' % term_str(e[1], depth + 1)
        elif e[0] == 'ci':
            s += '[%s%d]' % ('-' if e[2] else '', e[1])
        elif e[0] == 'ss':
            s += '[%d..%s%d]' % (e[1], '-' if e[3] else '', e[2])
    return s


def path_str(path, depth=0):
    root, proj = path
    if root[0] == 'L':
        r = 'L%d._%d' % (root[1], root[2])
    else:
        r = '*' + term_str(root[1], depth + 1)
    return r + proj_str(proj, depth)


# ---------------------------------------------------------------------------------------------

IO_READ = 'byteorder::ReadBytesExt::'
IO_WRITE = 'byteorder::WriteBytesExt::'
STD_IO = {
    'std::io::Read::read_exact': 'read_exact',
    'std::io::Read::read': 'read_partial',
    'std::io::Read::read_to_end': 'read_to_end',
    'std::io::Read::read_vectored': 'read_vectored',
    'std::io::Read::read_buf': 'read_buf',
    'std::io::Read::read_to_string': 'read_to_string',
    'std::io::Write::write_all': 'write_all',
    'std::io::Write::write': 'write_partial',
    'std::io::Write::write_vectored': 'write_vectored',
    'std::io::Write::write_fmt': 'write_fmt_io',
    'std::io::Write::flush': 'flush',
    'std::io::Seek::seek': 'seek',
    'std::io::Seek::rewind': 'rewind',
    'std::io::Seek::stream_position': 'stream_position',
}
PRIM_WIDTH = {'i8': 1, 'u8': 1, 'i16': 2, 'u16': 2, 'i32': 4, 'u32': 4, 'i64': 8, 'u64': 8,
              'f32': 4, 'f64': 8, 'i128': 16, 'u128': 16}

PANIC_DEFS = (
    'core::panicking::panic', 'core::panicking::panic_fmt', 'core::panicking::panic_nounwind',
    'core::panicking::assert_failed', 'std::rt::begin_panic', 'core::panicking::panic_bounds_check',
    'core::panicking::panic_explicit', 'core::panicking::unreachable_display',
    'core::option::expect_failed', 'core::result::unwrap_failed', 'core::option::unwrap_failed',
    'std::rt::panic_fmt', 'core::panicking::panic_display', 'core::panicking::panic_str',
)


COMBINATORS = {
    'std::option::Option::<T>::map', 'std::option::Option::<T>::and_then', 'std::option::Option::<T>::ok_or',
    'std::option::Option::<T>::unwrap_or', 'std::option::Option::<&T>::copied', 'std::option::Option::<&T>::cloned',
    'std::option::Option::<T>::unwrap', 'std::option::Option::<T>::expect', 'std::option::Option::<T>::unwrap_or_default',
    'std::result::Result::<T, E>::map', 'std::result::Result::<T, E>::and_then', 'std::result::Result::<T, E>::map_err',
    'std::result::Result::<T, E>::ok', 'std::result::Result::<T, E>::unwrap_or', 'std::result::Result::<T, E>::unwrap',
    'std::result::Result::<T, E>::expect', 'std::result::Result::<T, E>::is_ok', 'std::result::Result::<T, E>::is_err',
    'std::ops::Try::branch',
}


class Frame:
    __slots__ = ('fn', 'fid', 'block', 'ret_path', 'ret_target', 'site', 'post')

    def __init__(self, fn, fid, block, ret_path, ret_target, site, post=None):
        self.fn = fn
        self.fid = fid
        self.block = block
        self.ret_path = ret_path
        self.ret_target = ret_target
        self.site = site
        self.post = post

    def copy(self):
        return Frame(self.fn, self.fid, self.block, self.ret_path, self.ret_target, self.site, self.post)


class State:
    __slots__ = ('mem', 'eff', 'cons', 'frames', 'done', 'retval', 'status', 'nfid', 'variants')

    def __init__(self):
        self.mem = {}
        self.eff = []
        self.cons = []
        self.frames = []
        self.done = False
        self.retval = None
        self.status = None   # 'return' | 'panic' | 'diverge' | 'back' | 'exit'
        self.nfid = 1
        self.variants = {}

    def fork(self):
        s = State()
        s.mem = dict(self.mem)
        s.eff = list(self.eff)
        s.cons = list(self.cons)
        s.frames = [f.copy() for f in self.frames]
        s.nfid = self.nfid
        s.variants = dict(self.variants)
        return s


class Path:
    """One finished abstract path of the analysed function."""

    def __init__(self, st):
        self.status = st.status
        self.ret = st.retval
        self.eff = st.eff
        self.cons = st.cons
        self.mem = st.mem

    def io(self):
        return [e for e in flat_effects(self.eff) if e[0] == 'io']


def flat_effects(effs):
    for e in effs:
        yield e
        if e[0] == 'loop':
            for body in e[3]:
                for x in flat_effects(body['eff']):
                    yield x


class Interp:
    def __init__(self, facts, inline=None, fail_site=None, opaque_defs=(), max_paths=MAX_PATHS,
                 assume_ok=True, fork_fallible=False, on_call=None, summarise_pure=True, summarise_predicates=False, virtual_loops=True):
        """
        inline(fnrec, call_term) -> bool    decides whether a local callee body is inlined
        fail_site: site tuple of the single fallible opaque call that returns Err on this run
        assume_ok: fallible opaque calls other than fail_site return Ok (success assumption)
        fork_fallible: fallible opaque calls fork into Ok / Err (overrides assume_ok)
        """
        self.F = facts
        self.inline = inline
        self.fail_site = fail_site
        self.opaque_defs = set(opaque_defs)
        self.max_paths = max_paths
        self.assume_ok = assume_ok
        self.fork_fallible = fork_fallible
        self.on_call = on_call
        self.merge_accessors = True
        self.summarise_pure = summarise_pure
        self.summarise_predicates = summarise_predicates
        self.virtual_loops = virtual_loops
        self.npaths = 0
        self.forced_next = {}
        self.fallible_sites = []
        self._loops_cache = {}
        self._loopuid = 0

    # -- memory ---------------------------------------------------------------------------
    def read(self, st, path):
        mem = st.mem
        root, proj = path
        v = mem.get(path)
        if v is None:
            # longest proper prefix
            base = None
            for n in range(len(proj) - 1, -1, -1):
                pv = mem.get((root, proj[:n]))
                if pv is not None:
                    base = self.project(pv, proj[n:])
                    break
            if base is None:
                if root[0] == 'K':
                    base = self.project(root[1], proj)
                elif root[0] == 'T':
                    base = ('load', path)
                else:
                    base = ('undef', path_str(path))
            v = base
        # overlays: entries strictly below path
        ov = []
        lp = len(proj)
        for (r2, p2), val in mem.items():
            if r2 == root and len(p2) > lp and p2[:lp] == proj:
                ov.append((p2[lp:], val))
        if ov:
            ov.sort(key=lambda x: repr(x[0]))
            v = self.apply_overlays(v, ov)
        return v

    def apply_overlays(self, v, ov):
        # fold overlays into aggregates when possible
        if is_agg(v):
            fields = list(v[4])
            rest = []
            for p, val in ov:
                if p[0][0] == 'f':
                    hit = False
                    for i, (fn, fv) in enumerate(fields):
                        if fn == p[0][1]:
                            if len(p) == 1:
                                fields[i] = (fn, val)
                            else:
                                fields[i] = (fn, self.apply_overlays(fv, [(p[1:], val)]))
                            hit = True
                            break
                    if not hit:
                        rest.append((p, val))
                else:
                    rest.append((p, val))
            v = ('agg', v[1], v[2], v[3], tuple(fields))
            if not rest:
                return v
            ov = rest
        if v[0] == 'upd':
            return ('upd', v[1], tuple(sorted(list(v[2]) + list(ov), key=lambda x: repr(x[0]))))
        return ('upd', v, tuple(ov))

    def project(self, v, proj):
        for n, e in enumerate(proj):
            if is_agg(v):
                if e[0] == 'f':
                    fv = agg_field(v, e[1])
                    if fv is None:
                        return ('proj', v, tuple(proj[n:]))
                    v = fv
                    continue
                if e[0] == 'v':
                    if v[2] == e[1]:
                        continue
                    return ('bottom',)
                if e[0] == 'ci' and v[1] == 'array' and not e[2]:
                    fv = agg_field(v, str(e[1]))
                    if fv is not None:
                        v = fv
                        continue
                if e[0] == 'i' and v[1] == 'array' and e[1][0] == 'int':
                    fv = agg_field(v, str(e[1][1]))
                    if fv is not None:
                        v = fv
                        continue
                return ('proj', v, tuple(proj[n:]))
            if v[0] == 'vecarr' and e[0] == 'i' and e[1][0] == 'int':
                fv = agg_field(v[1], str(e[1][1]))
                if fv is not None:
                    v = fv
                    continue
            if v[0] == 'closure' and e[0] == 'f' and e[1].isdigit() and int(e[1]) < len(v[2]):
                v = v[2][int(e[1])]
                continue
            if v[0] == 'upd':
                rest = tuple(proj[n:])
                # newest overlay that covers `rest`
                for p, val in v[2]:
                    if rest[:len(p)] == p:
                        return self.project(val, rest[len(p):])
                sub = [(p[len(rest):], val) for p, val in v[2] if p[:len(rest)] == rest and len(p) > len(rest)]
                base = self.project(v[1], rest)
                if sub:
                    return self.apply_overlays(base, sub)
                return base
            if v[0] == 'proj':
                return ('proj', v[1], v[2] + tuple(proj[n:]))
            if v[0] == 'checked' and tuple(proj[n:n + 2]) == (('v', 'Some'), ('f', '0')):
                return self.project(('bin', v[1], v[2], v[3], v[4]), proj[n + 2:])
            if v[0] == 'next' and tuple(proj[n:n + 2]) == (('v', 'Some'), ('f', '0')):
                v = self.elem_of(v[1], v[2])
                return self.project(v, proj[n + 2:])
            if v[0] == 'trybranch' and len(proj) >= n + 2 and proj[n][0] == 'v' and proj[n + 1] == ('f', '0'):
                src, kind = v[1], v[2]
                if proj[n][1] == 'Continue':
                    inner = self.project(src, (('v', 'Some' if kind == 'opt' else 'Ok'), ('f', '0')))
                elif kind == 'opt':
                    inner = NONE
                else:
                    inner = ERR(self.project(src, (('v', 'Err'), ('f', '0'))))
                return self.project(inner, proj[n + 2:])
            if v[0] == 'opt_as_ref' and v[1][0] == 'ref' and tuple(proj[n:n + 2]) == (('v', 'Some'), ('f', '0')):
                v = ('ref', (v[1][1][0], v[1][1][1] + (('v', 'Some'), ('f', '0'))))
                return self.project(v, proj[n + 2:])
            if v[0] in ('get', 'first', 'last') and tuple(proj[n:n + 2]) == (('v', 'Some'), ('f', '0')):
                coll = v[1]
                idx = v[2] if v[0] == 'get' else ('int', 0) if v[0] == 'first' else ('lastidx',)
                if coll[0] == 'at':
                    v = ('ref', (coll[1][0], coll[1][1] + (('i', idx),)))
                else:
                    v = ('elemref_at', coll, idx)
                return self.project(v, proj[n + 2:])
            if v[0] == 'load':
                r, p = v[1]
                return ('load', (r, p + tuple(proj[n:])))
            return ('proj', v, tuple(proj[n:]))
        return v

    def write(self, st, path, val, site=None):
        root, proj = path
        lp = len(proj)
        dead = [k for k in st.mem if k[0] == root and len(k[1]) > lp and k[1][:lp] == proj]
        for k in dead:
            del st.mem[k]
        st.mem[path] = val
        if root[0] == 'T':
            st.eff.append(('store', path, val, site))

    # -- places / operands ----------------------------------------------------------------
    def place(self, st, fr, p):
        path = (('L', fr.fid, p['l']), ())
        for e in p['proj']:
            k = e['k']
            if k == 'deref':
                v = self.read(st, path)
                if v[0] == 'ref':
                    path = v[1]
                elif v[0] == 'constref':
                    path = (('K', v[1]), ())          # pointee of a reference to a constant
                else:
                    path = (('T', v), ())
            elif k == 'field':
                path = (path[0], path[1] + (('f', e['name']),))
            elif k == 'downcast':
                path = (path[0], path[1] + (('v', e['v']),))
            elif k == 'index':
                iv = self.read(st, (('L', fr.fid, e['l']), ()))
                path = self.index_path(st, path, iv)
            elif k == 'cidx':
                path = (path[0], path[1] + (('ci', e['off'], e['from_end']),))
            elif k == 'subslice':
                path = (path[0], path[1] + (('ss', e['from'], e['to'], e['from_end']),))
            else:
                pass
        return path

    def decode_const(self, j):
        """value of a constant table emitted by the driver (integers, field-less enums, tuples, arrays)"""
        if 'int' in j:
            return INT(j['int'])
        if 'bool' in j:
            return ('bool', j['bool'])
        if 'enum' in j:
            e = j['enum']
            return agg(e['adt'], e['variant'], e['vi'], ())
        if 'struct' in j:
            fs = [(n_, self.decode_const(v_)) for n_, v_ in j['struct']['fields']]
            return None if any(v_ is None for _, v_ in fs) else agg(j['struct']['adt'], '', 0, fs)
        if 'option' in j:
            if j['option'] is None:
                return NONE
            x = self.decode_const(j['option'])
            return None if x is None else SOME(('constref', x))
        if 'tuple' in j:
            xs = [self.decode_const(x) for x in j['tuple']]
            return None if any(x is None for x in xs) else agg('tuple', '', 0, [(str(i), x) for i, x in enumerate(xs)])
        if 'array' in j:
            xs = [self.decode_const(x) for x in j['array']]
            return None if any(x is None for x in xs) else agg('array', '', 0, [(str(i), x) for i, x in enumerate(xs)])
        return None

    def index_path(self, st, path, iv):
        """`c[i]` where i is the variable of `for i in 0..c.len()`: the element of that iteration, named exactly as the element of
        `for x in c.iter()` is, so that an indexed loop over a collection and an iterator loop over it have the same facts."""
        if isinstance(iv, tuple) and iv and iv[0] == 'elem' and is_agg(iv[1]) and iv[1][1].startswith('std::ops::Range'):
            start, end = agg_field(iv[1], 'start'), agg_field(iv[1], 'end')
            if end is not None and end[0] == 'cast':
                end = end[1]
            if start == ('int', 0) and end is not None and end[0] == 'len':
                try:
                    here = self.coll_of(st, ('ref', path))
                except Exception:
                    here = None
                try:
                    val = self.read(st, path)
                except Exception:
                    val = None
                if (here is not None and (here == end[1] or self.same_coll(here, end[1]))) or (val is not None and val == end[1]) \
                        or (val is not None and val[0] == 'upd' and val[1] == end[1]):
                    return (('T', ('elemref', end[1], iv[2])), ())
        return (path[0], path[1] + (('i', iv),))

    def same_coll(self, a, b):
        from . import affine
        try:
            return affine.canon_coll(a) == affine.canon_coll(b)
        except Exception:
            return False

    def const(self, c):
        if 'int' in c:
            return INT(c['int'])
        if 'bool' in c:
            return ('bool', c['bool'])
        if 'f64' in c:
            return ('f64', c['f64'])
        if 'str' in c:
            return ('str', c['str'])
        if 'ref_enum' in c:
            e = c['ref_enum']
            return ('constref', agg(e['adt'], e['variant'], e['vi'], ()))
        if 'ref_int' in c:
            return ('constref', INT(c['ref_int']))
        if 'ref_const' in c:
            v = self.decode_const(c['ref_const'])
            if v is not None:
                return ('constref', v)
        if 'val_const' in c:
            v = self.decode_const(c['val_const'])
            if v is not None:
                return v
        if 'fn' in c:
            r = c['fn'].get('resolved')
            return ('fnitem', c['fn']['path'], r['key'] if r else None, c['fn']['def'],
                    r['def'] if r else None)
        if 'closure' in c:
            return ('closure', c['closure'], ())
        if c.get('zst'):
            if c['ty'] == '()':
                return UNIT
            return ('zst', c['ty'])
        if 'uneval' in c:
            return ('constsym', c['uneval'])
        if 'text' in c:
            return ('constsym', c['text'])
        return ('constsym', c['ty'])

    def operand(self, st, fr, o):
        k = o['k']
        if k in ('copy', 'move'):
            return self.read(st, self.place(st, fr, o['p']))
        if k == 'const':
            return self.const(o)
        if k == 'rtcheck':
            return ('bool', True) if 'Overflow' in o.get('what', '') else ('rtcheck', o.get('what'))
        return ('unknown', k)

    # -- arithmetic -----------------------------------------------------------------------
    INT_RANGE = {
        'i8': (-2**7, 2**7 - 1), 'i16': (-2**15, 2**15 - 1), 'i32': (-2**31, 2**31 - 1),
        'i64': (-2**63, 2**63 - 1), 'isize': (-2**63, 2**63 - 1), 'i128': (-2**127, 2**127 - 1),
        'u8': (0, 2**8 - 1), 'u16': (0, 2**16 - 1), 'u32': (0, 2**32 - 1), 'u64': (0, 2**64 - 1),
        'usize': (0, 2**64 - 1), 'u128': (0, 2**128 - 1),
    }

    def wrap(self, v, ty):
        r = self.INT_RANGE.get(ty)
        if not r:
            return v
        lo, hi = r
        span = hi - lo + 1
        return (v - lo) % span + lo

    def binop(self, op, a, b, ty):
        base = op.replace('WithOverflow', '').replace('Unchecked', '')
        if a[0] == 'int' and b[0] == 'int':
            x, y = a[1], b[1]
            res = None
            if base == 'Add':
                res = x + y
            elif base == 'Sub':
                res = x - y
            elif base == 'Mul':
                res = x * y
            elif base == 'Div' and y != 0:
                res = int(x / y) if (x < 0) != (y < 0) and x % y != 0 else x // y
            elif base == 'Rem' and y != 0:
                res = x - y * (int(x / y))
            elif base == 'BitAnd':
                res = x & y
            elif base == 'BitOr':
                res = x | y
            elif base == 'BitXor':
                res = x ^ y
            elif base == 'Shl':
                res = x << y
            elif base == 'Shr':
                res = x >> y
            elif base in ('Eq', 'Ne', 'Lt', 'Le', 'Gt', 'Ge'):
                return ('bool', {'Eq': x == y, 'Ne': x != y, 'Lt': x < y, 'Le': x <= y,
                                 'Gt': x > y, 'Ge': x >= y}[base])
            if res is not None:
                r = self.INT_RANGE.get(ty)
                ovf = bool(r and not (r[0] <= res <= r[1]))
                if op.endswith('WithOverflow'):
                    return agg('tuple', '', 0, (('0', INT(self.wrap(res, ty))), ('1', ('bool', ovf))))
                return INT(self.wrap(res, ty))
        if a[0] == 'bool' and b[0] == 'bool':
            if base == 'BitAnd':
                return ('bool', a[1] and b[1])
            if base == 'BitOr':
                return ('bool', a[1] or b[1])
            if base == 'BitXor':
                return ('bool', a[1] != b[1])
            if base == 'Eq':
                return ('bool', a[1] == b[1])
            if base == 'Ne':
                return ('bool', a[1] != b[1])
        if a[0] == 'bool' or b[0] == 'bool':
            k, o = (a, b) if a[0] == 'bool' else (b, a)
            if base == 'BitAnd':
                return o if k[1] else ('bool', False)
            if base == 'BitOr':
                return ('bool', True) if k[1] else o
        if a[0] == 'f64' and b[0] == 'f64':
            x, y = float(a[1]), float(b[1])
            if base in ('Eq', 'Ne', 'Lt', 'Le', 'Gt', 'Ge'):
                return ('bool', {'Eq': x == y, 'Ne': x != y, 'Lt': x < y, 'Le': x <= y,
                                 'Gt': x > y, 'Ge': x >= y}[base])
        if op.endswith('WithOverflow'):
            return agg('tuple', '', 0, (('0', ('bin', base, a, b, ty)), ('1', ('ovf', base, a, b, ty))))
        if a == b and not ty.startswith('f') and base in ('Eq', 'Le', 'Ge'):
            return ('bool', True)
        if a == b and not ty.startswith('f') and base in ('Ne', 'Lt', 'Gt'):
            return ('bool', False)
        if base in CMP_OPS:
            return cmp_atom(base, a, b, ty)
        return ('bin', base, a, b, ty)

    def rvalue(self, st, fr, rv):
        k = rv['k']
        if k == 'use':
            return self.operand(st, fr, rv['a'])
        if k in ('ref', 'rawptr'):
            pth = self.place(st, fr, rv['p'])
            if pth[0][0] == 'T' and not pth[1]:
                return pth[0][1]          # &*p == p
            return ('ref', pth)
        if k == 'bin':
            return self.binop(rv['op'], self.operand(st, fr, rv['a']), self.operand(st, fr, rv['b']), rv['ty'])
        if k == 'un':
            a = self.operand(st, fr, rv['a'])
            op = rv['op']
            if op == 'Not' and a[0] == 'bool':
                return ('bool', not a[1])
            if op == 'Not' and a[0] == 'un' and a[1] == 'Not':
                return a[2]
            if op == 'Neg' and a[0] == 'int':
                return INT(-a[1])
            if op == 'PtrMetadata':
                return ('len', self.strip_ref(st, a))
            return ('un', op, a)
        if k == 'cast':
            a = self.operand(st, fr, rv['a'])
            ck = rv['ck']
            if ck.startswith('PointerCoercion') or ck == 'PtrToPtr':
                return a
            if ck == 'Transmute' and (a[0] == 'ref' or rv['to'].startswith(('*', '&', 'std::boxed::Box<', 'std::ptr::NonNull<'))):
                return a
            if a[0] == 'int' and ck == 'IntToInt':
                return INT(self.wrap(a[1], rv['to']))
            if a[0] == 'bool' and ck == 'IntToInt':
                return INT(1 if a[1] else 0)
            if a[0] == 'agg' and ck == 'IntToInt':
                # enum-to-int cast: discriminant value
                d = self.discr_of(a)
                if d is not None:
                    return INT(d)
            if rv['from'] == rv['to']:
                return a
            return ('cast', a, rv['from'], rv['to'])
        if k == 'discr':
            v = self.read(st, self.place(st, fr, rv['p']))
            d = self.discr_of(v)
            if d is not None:
                return INT(d)
            kv = st.variants.get(v)
            if kv is not None:
                return INT(kv)
            if v[0] == 'opt_as_ref' and v[1][0] == 'ref':
                # Option::as_ref / as_mut keep the variant: the discriminant is the referent's
                w = self.read(st, v[1][1])
                kw = st.variants.get(w)
                if kw is not None:
                    return INT(kw)
                return ('discr', w)
            return ('discr', v)
        if k == 'agg':
            ops = [self.operand(st, fr, x) for x in rv['ops']]
            ak = rv['ak']
            if ak == 'adt':
                return agg(rv['adt'], rv['variant'] if rv['is_enum'] else '', rv['vi'],
                           list(zip(rv['fields'], ops)))
            if ak == 'tuple':
                if not ops:
                    return UNIT
                return agg('tuple', '', 0, [(str(i), x) for i, x in enumerate(ops)])
            if ak == 'array':
                return agg('array', '', 0, [(str(i), x) for i, x in enumerate(ops)])
            if ak == 'closure':
                return ('closure', rv['closure'], tuple(ops))
            return ('aggother', ak, tuple(ops))
        if k == 'repeat':
            return ('repeat', self.operand(st, fr, rv['a']), rv['count'])
        return ('unknown', k)

    def discr_of(self, v):
        if is_agg(v) and v[1] not in ('tuple', 'array'):
            adt = self.F.adts.get(v[1])
            if adt and adt['kind'] == 'enum':
                for var in adt['variants']:
                    if var['name'] == v[2]:
                        return int(var['discr']) if var['discr'] is not None else var['vi']
            if v[1] == 'std::cmp::Ordering':
                return {'Less': -1, 'Equal': 0, 'Greater': 1}.get(v[2])
            return v[3]
        return None

    def strip_ref(self, st, t):
        """A pointer term -> the thing pointed to (as value term when available)."""
        if t[0] == 'ref':
            return self.read(st, t[1])
        if t[0] == 'constref':
            return t[1]
        return ('deref', t)

    # -- driving ---------------------------------------------------------------------------
    def loops_of(self, fn):
        k = fn['key']
        if k not in self._loops_cache:
            self._loops_cache[k] = mir.natural_loops(fn)
        return self._loops_cache[k]

    def run(self, fn, args=None, mem=None):
        """Analyse `fn` from its entry; returns list of Path."""
        st = State()
        if mem:
            st.mem.update(mem)
        fr = Frame(fn, 0, 0, None, None, ())
        st.frames.append(fr)
        for i in range(1, fn['argc'] + 1):
            st.mem[(('L', 0, i), ())] = args[i - 1] if args and i - 1 < len(args) and args[i - 1] is not None else ('param', i)
        out = []
        self.explore([st], None, out)
        return [Path(s) for s in out]

    def explore(self, states, loopctx, finished):
        """Worklist exploration.  loopctx = (fid, header, blocks, depth) restricts to one loop iteration."""
        work = list(states)
        while work:
            st = work.pop()
            self.step_until_event(st, loopctx, work, finished)

    def finish(self, st, status, finished):
        st.status = status
        st.done = True
        self.npaths += 1
        if self.npaths > self.max_paths:
            raise Unanalysable('more than %d abstract paths' % self.max_paths)
        finished.append(st)

    def step_until_event(self, st, loopctx, work, finished):
        while True:
            fr = st.frames[-1]
            fn = fr.fn
            bidx = fr.block
            # loop entry?
            loops = self.loops_of(fn)
            if bidx in loops and not (loopctx and loopctx[0] != 'ret' and loopctx[0] == fr.fid and loopctx[1] == bidx
                                      and loopctx[4] == len(st.frames)):
                self.enter_loop(st, fr, bidx, loops[bidx], loopctx, work, finished)
                return
            blk = fn['blocks'][bidx]
            for s in blk['stmts']:
                if s['k'] == 'assign':
                    v = self.rvalue(st, fr, s['rv'])
                    self.write(st, self.place(st, fr, s['p']), v, site=self.site(st, bidx))
                elif s['k'] == 'setdiscr':
                    pass
            t = blk['term']
            k = t['k']
            if k == 'goto':
                nxt = [t['target']]
            elif k == 'drop':
                nxt = [t['target']]
            elif k == 'assert':
                c = self.operand(st, fr, t['cond'])
                known = c[0] == 'bool'
                if known and c[1] != t['expected']:
                    st.eff.append(('panic', 'assert:' + t['msg'], self.site(st, bidx), fn['def']))
                    self.finish(st, 'panic', finished)
                    return
                if not known:
                    st.eff.append(('assert', t['msg'], c, t['expected'],
                                   tuple(self.operand(st, fr, x) for x in t['mops']),
                                   self.site(st, bidx), fn['def']))
                    forks = self.table_index_forks(st, fr, fn, t)
                    if forks is not None:
                        for s2 in forks:
                            s2.frames[-1].block = t['target']
                            if not self.leaves(s2, t['target'], loopctx, finished):
                                work.append(s2)
                        return
                nxt = [t['target']]
            elif k == 'switch':
                d = self.operand(st, fr, t['discr'])
                if d[0] == 'bool':
                    d = INT(1 if d[1] else 0)
                if d[0] == 'int':
                    tgt = t['otherwise']
                    for v, b in t['targets']:
                        if int(v) == d[1]:
                            tgt = b
                            break
                    nxt = [tgt]
                else:
                    # `x == Enum::Variant` (derived PartialEq compares discriminants) is the same test as matching x on that
                    # variant: record it as a constraint on discr(x), as a `match` would
                    conv = None
                    if d[0] == 'bin' and d[1] in ('Eq', 'Ne') and d[2][0] == 'discr' and d[3][0] == 'int':
                        op_, k_ = d[1], d[3][1]
                        d = d[2]
                        conv = lambda v, op_=op_, k_=k_: (k_ if ((op_ == 'Eq') == ((v != 0) if isinstance(v, int) else True))
                                                           else ('not', (k_,)))
                    known = self.lookup_con(st, d)
                    opts = []
                    vals = [int(v) for v, _ in t['targets']]
                    for v, b in t['targets']:
                        if self.is_unreachable(fn, b):
                            continue
                        opts.append((int(v), b))
                    oth = t['otherwise']
                    if not self.is_unreachable(fn, oth):
                        opts.append((('not', tuple(vals)), oth))
                    if conv is not None:
                        opts = [(conv(v), b) for v, b in opts]
                    if known is not None:
                        opts = [(v, b) for v, b in opts if self.con_compatible(known, v)]
                    if not opts:
                        self.finish(st, 'diverge', finished)
                        return
                    # fork
                    for v, b in opts[1:]:
                        s2 = st.fork()
                        self.record_con(s2, d, v)
                        self.note_variant(s2, d, v)
                        s2.frames[-1].block = b
                        if self.leaves(s2, b, loopctx, finished):
                            continue
                        work.append(s2)
                    v, b = opts[0]
                    self.record_con(st, d, v)
                    self.note_variant(st, d, v)
                    nxt = [b]
            elif k == 'return':
                rv = self.read(st, (('L', fr.fid, 0), ()))
                if len(st.frames) == 1:
                    st.retval = rv
                    self.finish(st, 'return', finished)
                    return
                st.frames.pop()
                # purge callee frame memory
                fid = fr.fid
                for key in [key for key in st.mem if key[0][0] == 'L' and key[0][1] == fid]:
                    del st.mem[key]
                caller = st.frames[-1]
                post = fr.post
                chained = False
                while post:
                    act, post = post[0], post[1:]
                    if isinstance(act, str):
                        rv = self.wrapv(rv, act)
                    elif act[0] == 'term':
                        rv = act[1] + (rv,)
                    elif act[0] == 'call':
                        r = self.apply_callable(st, caller, act[1], [rv], fr.ret_path, fr.ret_target,
                                                fr.site, post=post)
                        if r == 'pushed':
                            chained = True
                            break
                        rv = r
                if chained:
                    continue
                self.write(st, fr.ret_path, rv)
                if fr.ret_target is None:
                    self.finish(st, 'diverge', finished)
                    return
                caller.block = fr.ret_target
                if loopctx and loopctx[0] == 'ret' and len(st.frames) < loopctx[1]:
                    self.finish(st, 'exit', finished)
                    return
                if self.leaves(st, fr.ret_target, loopctx, finished):
                    return
                continue
            elif k == 'unreachable':
                self.finish(st, 'diverge', finished)
                return
            elif k == 'call':
                r = self.do_call(st, fr, bidx, t, loopctx, work, finished)
                if r == 'stop':
                    return
                if r == 'pushed':
                    continue
                nxt = [t['target']]
                if t['target'] is None:
                    self.finish(st, 'diverge', finished)
                    return
            else:
                self.finish(st, 'diverge', finished)
                return
            b = nxt[0]
            fr.block = b
            if self.leaves(st, b, loopctx, finished):
                return

    def leaves(self, st, b, loopctx, finished):
        """Inside a loop-iteration exploration: stop at the back edge / at loop exits."""
        if not loopctx or loopctx[0] == 'ret':
            return False
        fid, header, blocks, _uid, depth = loopctx
        if len(st.frames) != depth or st.frames[-1].fid != fid:
            return False
        if b == header:
            self.finish(st, 'back', finished)
            return True
        if b not in blocks:
            self.finish(st, 'exit', finished)
            return True
        return False

    def is_unreachable(self, fn, b):
        blk = fn['blocks'][b]
        return not blk['stmts'] and blk['term']['k'] == 'unreachable'

    NEG = {'Eq': 'Ne', 'Ne': 'Eq', 'Lt': 'Ge', 'Ge': 'Lt', 'Le': 'Gt', 'Gt': 'Le'}
    SWAP = {'Eq': 'Eq', 'Ne': 'Ne', 'Lt': 'Gt', 'Gt': 'Lt', 'Le': 'Ge', 'Ge': 'Le'}

    def lookup_con(self, st, d):
        for t, v in reversed(st.cons):
            if t == d:
                return v
        # a comparison already decided on this path through an equivalent / complementary atom
        if d[0] == 'bin' and d[1] in self.NEG:
            isf = str(d[4]).startswith('f')
            for t, v in reversed(st.cons):
                if t[0] != 'bin' or t[1] not in self.NEG:
                    continue
                if t[2] == d[2] and t[3] == d[3]:
                    op = t[1]
                elif t[2] == d[3] and t[3] == d[2]:
                    op = self.SWAP[t[1]]
                else:
                    continue
                if isinstance(v, int):
                    tv = (v != 0)
                elif isinstance(v, tuple) and v[0] == 'not' and v[1] == (0,):
                    tv = True
                else:
                    continue
                if op == d[1]:
                    return 1 if tv else 0
                if self.NEG[op] == d[1] and (not isf or {op, d[1]} == {'Eq', 'Ne'}):
                    return 0 if tv else 1
                if not isf and tv:
                    implied = {'Eq': {'Le': 1, 'Ge': 1, 'Lt': 0, 'Gt': 0}, 'Lt': {'Le': 1, 'Ne': 1, 'Eq': 0, 'Gt': 0},
                               'Gt': {'Ge': 1, 'Ne': 1, 'Eq': 0, 'Lt': 0}}.get(op, {})
                    if d[1] in implied:
                        return implied[d[1]]
        return None

    def con_compatible(self, known, v):
        if isinstance(known, int):
            if isinstance(v, int):
                return known == v
            return known not in v[1]
        # known = ('not', vals)
        if isinstance(v, int):
            return v not in known[1]
        return True

    def note_variant(self, st, d, v):
        if d[0] == 'discr' and isinstance(v, int):
            st.variants[d[1]] = v
            x = d[1]
            if x[0] == 'trybranch':
                if x[2] == 'opt':
                    st.variants[x[1]] = 1 if v == 0 else 0
                else:
                    st.variants[x[1]] = 0 if v == 0 else 1

    def site(self, st, bidx):
        return tuple(f.site[-1] for f in st.frames[1:] if f.site) + ((st.frames[-1].fn['def'], bidx),)

    # -- loops -----------------------------------------------------------------------------
    def enter_loop(self, st, fr, header, blocks, outer_ctx, work, finished):
        fn = fr.fn
        uid = self.site(st, header)
        depth = len(st.frames)
        ctx = (fr.fid, header, blocks, uid, depth)
        # iterator feeding the loop (for loops): header ends in a call to Iterator::next
        info = {'kind': 'loop', 'site': uid, 'fn': fn['def']}
        ht = fn['blocks'][header]['term']
        if ht['k'] == 'call' and mir.callee_decl(ht) == 'std::iter::Iterator::next':
            pr = st.fork()
            pfr = pr.frames[-1]
            for s_ in fn['blocks'][header]['stmts']:
                if s_['k'] == 'assign':
                    self.write_quiet(pr, self.place(pr, pfr, s_['p']), self.rvalue(pr, pfr, s_['rv']))
            it = self.operand(pr, pfr, ht['args'][0])
            info['kind'] = 'for'
            info['iter'] = self.strip_ref(pr, it)
            r_ = info['iter']
            if is_agg(r_) and r_[1].startswith('std::ops::Range') and agg_field(r_, 'start') == ('int', 0):
                e_ = agg_field(r_, 'end')
                if e_ is not None and e_[0] == 'cast':
                    e_ = e_[1]
                if e_ is not None and e_[0] == 'len':
                    info['range'] = r_
                    info['iter'] = ('iter', e_[1], 'ref')       # indexed loop over a collection (see index_path)
        arr = self.known_array(info.get('iter')) if info['kind'] == 'for' else None
        if arr is not None:
            return self.unroll_loop(st, ctx, uid, arr, outer_ctx, work, finished)
        entry_mem = dict(st.mem)
        W = set()
        lvname = site_str(uid)
        for rnd in range(6):
            probe = st.fork()
            probe.eff = []
            for p in sorted(W, key=lambda q: (len(q[1]), repr(q))):
                self.write_quiet(probe, p, ('lv', lvname, path_str(p)))
            res = []
            saved = self.npaths
            self.explore([probe], ctx, res)
            self.npaths = saved
            W2 = set(W)
            for s in res:
                if s.status != 'back':
                    continue
                for key, val in s.mem.items():
                    if key[0][0] == 'L' and key[0][1] > fr.fid and not self.frame_alive(st, key[0][1]):
                        continue
                    if entry_mem.get(key) != val and not (val[0] == 'lv' and val[1] == lvname):
                        if key[0][0] == 'T' and self.mentions_elem_of(key[0][1], uid):
                            continue      # memory of this iteration's own element: fresh in every iteration
                        W2.add(key)
                for key in entry_mem:
                    if key not in s.mem:
                        W2.add(key)
            if W2 == W:
                break
            W = W2
        else:
            raise Unanalysable('loop-carried set did not stabilise at %s' % lvname)
        if info['kind'] == 'for' and ht['args'][0]['k'] in ('copy', 'move'):
            pass
        # final pass
        base = st.fork()
        mark = len(base.eff)
        for p in sorted(W, key=lambda q: (len(q[1]), repr(q))):
            self.write_quiet(base, p, ('lv', lvname, path_str(p)))
        res = []
        self.explore([base.fork()], ctx, res)
        bodies = []
        exits = []
        for s in res:
            if s.status == 'back':
                bodies.append({'eff': s.eff[mark:], 'cons': s.cons[len(base.cons):], 'mem': s.mem})
            else:
                exits.append(s)
        info['carried'] = sorted(path_str(p) for p in W)
        info['entry'] = {path_str(p): self.read(st, p) for p in W}
        info['carried_paths'] = {path_str(p): p for p in W}
        if info['kind'] == 'loop' and bodies:
            self.counted_loop(st, info, bodies, W, lvname)
        loop_eff = ('loop', uid, info, bodies)
        for s in exits:
            tail = s.eff[mark:]
            s.eff = s.eff[:mark] + [loop_eff] + tail
            if s.status == 'exit':
                s.done = False
                s.status = None
                self.npaths -= 1
                if self.leaves(s, s.frames[-1].block, outer_ctx, finished):
                    continue
                work.append(s)
            else:
                # return / panic / diverge from inside the loop: already a finished path of the
                # enclosing exploration
                if outer_ctx is None or s.status in ('panic', 'diverge', 'return'):
                    finished.append(s)
                else:
                    finished.append(s)

    def record_con(self, st, d, v):
        """a branch taken on `a & b` being true is a branch on a and on b; on `a | b` being false, on !a and on !b"""
        st.cons.append((d, v))
        if isinstance(d, tuple) and d and d[0] == 'bin' and d[1] in ('BitAnd', 'BitOr') and len(d) >= 4 and str(d[-1]) == 'bool':
            true = (v == 1) or v == ('not', (0,))
            false = (v == 0)
            if (d[1] == 'BitAnd' and true) or (d[1] == 'BitOr' and false):
                for x in (d[2], d[3]):
                    if isinstance(x, tuple) and x and x[0] == 'bin':
                        self.record_con(st, x, ('not', (0,)) if true else 0)

    def table_index_forks(self, st, fr, fn, t):
        """`TABLE[i]` with TABLE a constant array of known elements (at most 16) and i symbolic: the lookup is the decision tree of
        a `match i { 0 => TABLE[0], .. }` — one state per index allowed by the comparisons already taken, with i bound to it.
        Returns the forked states positioned before the indexing block, or None when this bounds check is not of that kind."""
        if t.get('msg') != 'BoundsCheck' or len(t.get('mops', [])) != 2:
            return None
        ln, ix = t['mops']
        if ln.get('k') != 'const' or 'int' not in ln or not (0 < int(ln['int']) <= 16):
            return None
        if ix.get('k') not in ('copy', 'move') or ix['p']['proj']:
            return None
        il = ix['p']['l']
        iv = self.operand(st, fr, ix)
        if iv[0] == 'int' or t['target'] is None:
            return None
        base = None
        for s_ in fn['blocks'][t['target']]['stmts']:
            if s_['k'] == 'assign' and s_['rv']['k'] == 'use' and s_['rv']['a'].get('k') in ('copy', 'move'):
                pr = s_['rv']['a']['p']['proj']
                if pr and pr[-1].get('k') == 'index' and pr[-1].get('l') == il:
                    bp = dict(s_['rv']['a']['p'])
                    bp['proj'] = pr[:-1]
                    try:
                        base = self.read(st, self.place(st, fr, bp))
                    except Exception:
                        base = None
        if base is not None and base[0] == 'constref':
            base = base[1]
        if not is_agg(base, 'array') or len(base[4]) != int(ln['int']):
            return None
        inner = iv
        while inner[0] == 'cast':
            inner = inner[1]
        out = []
        for k in range(int(ln['int'])):
            # feasibility against what the path already knows about the index (comparisons with constants)
            feas = True
            for ct, cv in st.cons:
                x = eval_with(ct, {iv: k, inner: k})
                if x is None:
                    continue
                want = (x == cv) if isinstance(cv, int) else (x not in cv[1]) if isinstance(cv, tuple) and cv and cv[0] == 'not' else True
                if not want:
                    feas = False
                    break
            if not feas:
                continue
            s2 = st.fork()
            s2.cons.append((inner, k))
            self.write_quiet(s2, self.place(s2, s2.frames[-1], ix['p']), INT(k))
            out.append(s2)
        return out or None

    def known_array(self, it):
        """elements of `for v in [a, b, c]` (an array value of known elements taken by value), else None"""
        if isinstance(it, tuple) and it and it[0] == 'into_iter' and is_agg(it[1], 'array') and 0 < len(it[1][4]) <= 16:
            return [v for _, v in it[1][4]]
        return None

    def unroll_loop(self, st, ctx, uid, elems, outer_ctx, work, finished):
        """a `for` over a fixed array of known elements is the body repeated once per element, in order: no loop effect, the
        effects of the iterations follow each other as those of the straight-line code do"""
        states = [st]
        try:
            for v in list(elems) + [None]:
                self.forced_next[uid] = NONE if v is None else SOME(v)
                nxt = []
                for s in states:
                    res = []
                    self.explore([s], ctx, res)
                    for r in res:
                        if r.status in ('back', 'exit'):
                            back = r.status == 'back'
                            r.done = False
                            r.status = None
                            self.npaths -= 1
                            if back:
                                nxt.append(r)
                            elif not self.leaves(r, r.frames[-1].block, outer_ctx, finished):
                                work.append(r)
                        else:
                            finished.append(r)
                states = nxt
        finally:
            self.forced_next.pop(uid, None)

    def counted_loop(self, st, info, bodies, W, lvname):
        """`let mut i = k; while i < N { ..; i += 1 }` is the loop `for _ in k..N`: when one carried integer starts at a constant,
        is compared `i < N` (N loop-invariant) at the top of every iteration and is left as i + 1 by every iteration, the loop gets
        the iterator Range{k, N} like its `for` spelling."""
        # fill spelling: `while v.len() < N { ..; v.push(x) }` with v empty at entry and exactly one push per iteration
        for p in W:
            if self.read(st, p) != ('vec', ()):
                continue
            lv = ('lv', lvname, path_str(p))
            bound = None
            ok = bool(bodies)
            for b in bodies:
                first = [(t, v) for t, v in b['cons'] if t[0] == 'bin' and t[1] in CMP_OPS][:1]
                if not first:
                    ok = False
                    break
                t, v = first[0]
                tv = (v != 0) if isinstance(v, int) else True
                if t[1] == 'Lt' and t[2] == ('len', lv) and tv:
                    n_ = t[3]
                elif t[1] == 'Le' and t[3] == ('len', lv) and not tv:
                    n_ = t[2]
                else:
                    ok = False
                    break
                if any(isinstance(x, tuple) and x and x[0] == 'lv' and x[1] == lvname for x in subterms(n_)) or \
                        (bound is not None and n_ != bound):
                    ok = False
                    break
                bound = n_
                pushes = [e for e in flat_effects(b['eff']) if e[0] == 'push' and e[1] == p]
                others = [e for e in flat_effects(b['eff']) if e[0] in ('mutate', 'store') and e[1] == p]
                if len(pushes) != 1 or others:
                    ok = False
                    break
            if ok and bound is not None:
                info['kind'] = 'for'
                info['counted'] = path_str(p)
                info['iter'] = agg('std::ops::Range<usize>', 'Range', 0, (('start', ('int', 0)), ('end', bound)))
                return
        # countdown spelling: `let mut left = N; while left > 0 { ..; left -= 1 }`
        for p in W:
            n0 = self.read(st, p)
            lv = ('lv', lvname, path_str(p))
            ok = bool(bodies)
            for b in bodies:
                first = [(t, v) for t, v in b['cons'] if t[0] == 'bin' and t[1] in CMP_OPS][:1]
                endv = b['mem'].get(p)
                if not first or not endv:
                    ok = False
                    break
                t, v = first[0]
                tv = (v != 0) if isinstance(v, int) else True
                pos = (t[1] == 'Lt' and t[2] == ('int', 0) and t[3] == lv and tv) or (t[1] == 'Le' and t[2] == lv and t[3] == ('int', 0) and not tv) \
                    or (t[1] == 'Ne' and {t[2], t[3]} == {lv, ('int', 0)} and tv and str(t[4]).startswith('u')) \
                    or (t[1] == 'Eq' and {t[2], t[3]} == {lv, ('int', 0)} and not tv and str(t[4]).startswith('u'))
                if not pos or not (endv[0] == 'bin' and endv[1] == 'Sub' and endv[2] == lv and endv[3] == ('int', 1)):
                    ok = False
                    break
            if ok:
                ty = bodies[0]['mem'].get(p)[4]
                info['kind'] = 'for'
                info['counted'] = path_str(p)
                info['iter'] = agg('std::ops::Range<%s>' % ty, 'Range', 0, (('start', ('int', 0)), ('end', n0)))
                return
        for p in W:
            k0 = self.read(st, p)
            if k0[0] != 'int':
                continue
            lv = ('lv', lvname, path_str(p))
            bound = None
            ok = True
            for b in bodies:
                first = [(t, v) for t, v in b['cons'] if t[0] == 'bin' and t[1] in CMP_OPS][:1]
                if not first:
                    ok = False
                    break
                t, v = first[0]
                tv = (v != 0) if isinstance(v, int) else True
                if t[1] == 'Lt' and t[2] == lv and tv and not contains(t[3], ('lv', lvname)) and not any(
                        isinstance(x, tuple) and x and x[0] == 'lv' and x[1] == lvname for x in subterms(t[3])):
                    n_ = t[3]
                elif t[1] == 'Le' and t[3] == lv and not tv and not any(
                        isinstance(x, tuple) and x and x[0] == 'lv' and x[1] == lvname for x in subterms(t[2])):
                    n_ = t[2]
                else:
                    ok = False
                    break
                if bound is not None and n_ != bound:
                    ok = False
                    break
                bound = n_
                endv = b['mem'].get(p)
                if not (endv and endv[0] == 'bin' and endv[1] == 'Add' and {endv[2], endv[3]} == {lv, ('int', 1)}):
                    ok = False
                    break
            if ok and bound is not None:
                ty = bodies[0]['mem'].get(p)[4]
                info['kind'] = 'for'
                info['counted'] = path_str(p)
                info['iter'] = agg('std::ops::Range<%s>' % ty, 'Range', 0, (('start', k0), ('end', bound)))
                return

    def mentions_elem_of(self, t, uid):
        for x in subterms(t):
            if isinstance(x, tuple) and x and x[0] in ('elem', 'elemref') and len(x) == 3 and x[2] == uid:
                return True
        return False

    def frame_alive(self, st, fid):
        return any(f.fid == fid for f in st.frames)

    def covering(self, key, entry_mem):
        """Shortest prefix of `key` that was present at loop entry (so that havoc replaces whole values)."""
        root, proj = key
        for n in range(0, len(proj) + 1):
            if (root, proj[:n]) in entry_mem:
                return (root, proj[:n])
        return key

    def write_quiet(self, st, path, val):
        root, proj = path
        lp = len(proj)
        for k in [k for k in st.mem if k[0] == root and len(k[1]) > lp and k[1][:lp] == proj]:
            del st.mem[k]
        st.mem[path] = val

    # -- calls -----------------------------------------------------------------------------
    def do_call(self, st, fr, bidx, t, loopctx, work, finished):
        fn = fr.fn
        site = self.site(st, bidx)
        dest = self.place(st, fr, t['dest'])
        args = [self.operand(st, fr, a) for a in t['args']]
        if 'fn' not in t:
            # indirect call through a fn pointer / closure value
            callee = self.operand(st, fr, t['indirect'])
            ret = ('ret', site, 'indirect')
            st.eff.append(('call', 'indirect', None, tuple([callee] + args), site, ret))
            self.write(st, dest, ret)
            return 'next'
        fref = t['fn']
        decl = fref['def']
        res = fref.get('resolved')
        rdef = res['def'] if res else None
        dest_ty = t['dest']['ty']

        if self.on_call:
            self.on_call(st, fr, site, t, args)

        # calls yielding Option<Result<..>> (iterator items): fallible sites too
        if dest_ty.startswith('std::option::Option<std::result::Result<'):
            self.fallible_sites.append((site, rdef or decl))
            if self.fail_site is not None and site == self.fail_site:
                ret = ('ret', site, rdef or decl)
                st.eff.append(('call', decl, rdef, tuple(args), site, ret))
                self.write(st, dest, SOME(ERR(('err', site))))
                return 'next'

        # panics
        if decl in PANIC_DEFS or (rdef in PANIC_DEFS):
            st.eff.append(('panic', decl, site, fn['def'], tuple(t.get('mac', []))))
            self.finish(st, 'panic', finished)
            return 'stop'

        # I/O primitives
        io = self.io_prim(st, fr, t, decl, args, site)
        if io is not None:
            ret = ('ret', site, decl)
            st.eff.append(io + (ret,))
            return self.fallible_result(st, dest, dest_ty, ret, site, decl, loopctx, work, finished, fr, t)

        # Option/Result combinators on a value whose variant is unknown: decide the variant by forking
        if decl in COMBINATORS and args and not is_agg(args[0]) and args[0][0] not in ('ref',):
            a0 = args[0]
            aty = t['args'][0].get('p', {}).get('ty', '') if t['args'][0]['k'] != 'const' else t['args'][0].get('ty', '')
            isres = aty.startswith('std::result::Result<')
            isopt = aty.startswith('std::option::Option<')
            if isres or isopt:
                kv = st.variants.get(a0)
                # the variant of `opt.as_ref()` / `opt.as_mut()` is the variant of `opt`: constrain the referent
                subj = a0
                if a0[0] == 'opt_as_ref' and a0[1][0] == 'ref':
                    subj = self.read(st, a0[1][1])
                    if kv is None:
                        kv = st.variants.get(subj)
                if kv is None:
                    s2 = st.fork()
                    s2.variants[a0] = 1
                    s2.variants[subj] = 1
                    s2.cons.append((('discr', subj), 1))
                    work.append(s2)          # re-executes this call with the variant known
                    st.variants[a0] = 0
                    st.variants[subj] = 0
                    st.cons.append((('discr', subj), 0))
                    kv = 0
                if isopt:
                    args[0] = SOME(self.project(a0, (('v', 'Some'), ('f', '0')))) if kv == 1 else NONE
                else:
                    args[0] = OK(self.project(a0, (('v', 'Ok'), ('f', '0')))) if kv == 0 else \
                        ERR(self.project(a0, (('v', 'Err'), ('f', '0'))))

        # std models
        m = self.model(st, fr, t, decl, rdef, args, site, dest, loopctx, work, finished)
        if m is not None:
            if m == 'pushed' or m == 'stop':
                return m
            self.write(st, dest, m)
            return 'next'

        # local body: inline
        key = res['key'] if res and res.get('has_body') else None
        target = self.F.fns.get(key) if key else None
        if target is None and res is None and fref.get('generic_body') and fref['krate'] == 'shapefile':
            target = None
        if target is not None and self.merge_accessors and 'blocks' in target and target.get('krate') == self.F.crate \
                and len(args) == 1:
            ak = self.accessor_kind(target)
            if ak == 'ref':
                a = args[0]
                loc = a[1] if a[0] == 'ref' else (('T', a), ())
                self.write(st, dest, ('ref', (loc[0], loc[1] + (('vp', '0'),))))
                return 'next'
            if ak == 'val':
                self.write(st, dest, self.project(args[0], (('vp', '0'),)))
                return 'next'
        if target is not None and 'blocks' in target and target.get('krate') == self.F.crate \
                and decl not in self.opaque_defs and (rdef not in self.opaque_defs) \
                and (self.inline is None or self.inline(target, t)) \
                and len(st.frames) < MAX_DEPTH \
                and not any(f.fn['key'] == target['key'] for f in st.frames):
            return self.spec_call(st, fr, target, args, dest, t['target'], site, loopctx, work, finished, rdef or decl)

        # integer TryFrom: fallible, value-preserving when it succeeds
        if decl == 'std::convert::TryFrom::try_from' and len(args) == 1 and dest_ty.startswith('std::result::Result<') and \
                dest_ty[len('std::result::Result<'):].split(',')[0] in self.INT_RANGE and \
                t['args'][0].get('p', t['args'][0]).get('ty') in self.INT_RANGE:
            tgt_ty = dest_ty[len('std::result::Result<'):].split(',')[0]
            ret = ('tryfrom', args[0], tgt_ty)
            st.eff.append(('call', decl, rdef, tuple(args), site, ret))
            return self.fallible_result(st, dest, dest_ty, ret, site, rdef or decl, loopctx, work, finished, fr, t)

        # opaque call
        ret = ('ret', site, rdef or decl)
        st.eff.append(('call', decl, rdef, tuple(args), site, ret))
        # &mut arguments into tracked memory are clobbered
        for a, ao in zip(args, t['args']):
            if a[0] == 'ref' and ao['k'] in ('copy', 'move') and ao['p']['ty'].startswith('&mut'):
                old = self.read(st, a[1])
                self.write(st, a[1], ('havoc', site, old))
        return self.fallible_result(st, dest, dest_ty, ret, site, rdef or decl, loopctx, work, finished, fr, t)

    def spec_call(self, st, fr, target, args, dest, ret_target, site, loopctx, work, finished, name):
        """Inline a local callee behind a barrier at its return.  One resulting path: adopt it.  Several
        paths that are all pure (no effect, no memory change besides the result): do not fork the caller,
        the result is the uninterpreted application ('app', def, args).  Otherwise adopt all paths."""
        # a predicate (pure fn returning bool) is made to be branched on: summarising it as an opaque application would hide the
        # comparisons it stands for from every path-sensitive rule, so predicates always fork
        is_pred = target.get('locals') and target['locals'][0].get('ty') == 'bool'
        snap = st.fork() if (self.summarise_pure and (self.summarise_predicates or not is_pred)) else None
        n_eff = len(st.eff)
        depth = len(st.frames) + 1
        self.push_frame(st, fr, target, args, dest, ret_target, site)
        res = []
        saved = self.npaths
        self.explore([st], ('ret', depth), res)
        exits = [x for x in res if x.status == 'exit']
        others = [x for x in res if x.status != 'exit']
        if snap is not None and len(exits) > 1 and not others:
            pure = True
            for x in exits:
                if len(x.eff) != n_eff:
                    pure = False
                    break
                for k2, v2 in x.mem.items():
                    if k2 == dest or (k2[0] == dest[0] and k2[1][:len(dest[1])] == dest[1]):
                        continue
                    if snap.mem.get(k2) != v2:
                        pure = False
                        break
                if not pure:
                    break
            if pure:
                self.npaths = saved
                snaps = tuple(self.read(snap, a[1]) if a[0] == 'ref' else None for a in args)
                self.write(snap, dest, ('app', name, tuple(args), snaps))
                snap.frames[-1].block = ret_target
                if not self.leaves(snap, ret_target, loopctx, finished):
                    work.append(snap)
                return 'stop'
        for x in others:
            finished.append(x)
        for x in exits:
            x.done = False
            x.status = None
            self.npaths -= 1
            if self.leaves(x, x.frames[-1].block, loopctx, finished):
                continue
            work.append(x)
        return 'stop'

    _acc_cache = {}

    def accessor_kind(self, target):
        """'ref' / 'val' when `target` is a pure accessor returning (a reference to) the single payload
        of whichever variant its enum argument has (e.g. PolygonRing::points, Patch::points); else None."""
        key = (id(self.F), target['key'])
        if key in Interp._acc_cache:
            return Interp._acc_cache[key]
        Interp._acc_cache[key] = None
        kind = None
        if target['argc'] == 1 and len(target['blocks']) < 40:
            try:
                sub = Interp(self.F, max_paths=64)
                sub.merge_accessors = False
                ps = sub.run(target)
                if len(ps) >= 2 and all(p.status == 'return' and not p.eff for p in ps):
                    kinds = set()
                    variants = set()
                    for p in ps:
                        r = p.ret
                        if r[0] == 'ref' and r[1][0] == ('T', ('param', 1)) and len(r[1][1]) == 2 \
                                and r[1][1][0][0] == 'v' and r[1][1][1] == ('f', '0'):
                            kinds.add('ref')
                            variants.add(r[1][1][0][1])
                        elif r[0] == 'proj' and r[1] == ('param', 1) and len(r[2]) == 2 and r[2][0][0] == 'v' \
                                and r[2][1] == ('f', '0'):
                            kinds.add('val')
                            variants.add(r[2][0][1])
                        else:
                            kinds.add(None)
                    if len(kinds) == 1 and None not in kinds and len(variants) == len(ps):
                        kind = kinds.pop()
            except Unanalysable:
                kind = None
        Interp._acc_cache[key] = kind
        return kind

    @staticmethod
    def result_err_ty(ty):
        """E of `std::result::Result<T, E>` (top-level comma split)"""
        pre = 'std::result::Result<'
        if not ty.startswith(pre) or not ty.endswith('>'):
            return None
        body = ty[len(pre):-1]
        depth = 0
        for i_, ch in enumerate(body):
            if ch in '<([':
                depth += 1
            elif ch in '>)]':
                depth -= 1
            elif ch == ',' and depth == 0:
                return body[i_ + 1:].strip()
        return None

    def push_frame(self, st, fr, target, args, dest, ret_target, site, post=None):
        fid = st.nfid
        st.nfid += 1
        nf = Frame(target, fid, 0, dest, ret_target, site, post)
        st.frames.append(nf)
        argc = target['argc']
        if target['kind'] == 'Closure' and len(args) == 2 and argc >= 2 and is_agg(args[1], 'tuple') and argc - 1 == len(args[1][4]):
            # closure call ABI: (closure, (a, b, ...)) -> _1 = closure, _2.. = a, b
            args = [args[0]] + [v for _, v in args[1][4]]
        elif target['kind'] == 'Closure' and len(args) == 2 and argc == 1 and args[1] == UNIT:
            args = [args[0]]
        for i in range(1, argc + 1):
            st.mem[(('L', fid, i), ())] = args[i - 1] if i - 1 < len(args) else ('undef', 'arg')
        return 'pushed'

    def fallible_result(self, st, dest, dest_ty, ret, site, what, loopctx, work, finished, fr, t):
        if dest_ty.startswith('std::result::Result<'):
            self.fallible_sites.append((site, what))
            if self.fail_site is not None and site == self.fail_site:
                self.write(st, dest, ERR(('err', site)))
                return 'next'
            if self.fork_fallible:
                s2 = st.fork()
                self.write(s2, self.place(s2, s2.frames[-1], t['dest']), ERR(('err', site)))
                if t['target'] is not None:
                    s2.frames[-1].block = t['target']
                    if not self.leaves(s2, t['target'], loopctx, finished):
                        work.append(s2)
                self.write(st, dest, OK(ret))
                return 'next'
            if self.assume_ok:
                self.write(st, dest, OK(ret))
                return 'next'
        self.write(st, dest, ret)
        return 'next'

    def canon_recv(self, st, t, ty=''):
        """Canonical receiver of an I/O call: strip references to references (`&mut &mut T` -> `&mut T`),
        using the static type of the receiver operand for the number of layers."""
        m = re.match(r'^((?:&(?:mut )?)+)', ty or '')
        layers = m.group(1).count('&') if m else 1
        for _ in range(max(0, layers - 1)):
            if t[0] == 'ref':
                t = self.read(st, t[1])
            else:
                t = ('deref', t)
        for _ in range(8):
            if t[0] == 'ref':
                v = self.read(st, t[1])
                if v[0] in ('ref', 'param'):
                    t = v
                    continue
            break
        if t[0] == 'load':
            # a pointer stored in caller-visible memory (e.g. self.source: &mut T): name it by its location
            return ('ptr_at', t[1])
        return t

    def io_prim(self, st, fr, t, decl, args, site):
        if decl.startswith(IO_READ) or decl.startswith(IO_WRITE):
            name = decl.split('::')[-1]
            rw, ty = name.split('_', 1)
            if ty.endswith('_into') or ty not in PRIM_WIDTH:
                width = None
            else:
                width = PRIM_WIDTH[ty]
            targs = t['fn']['args']
            endian = targs[1].split('::')[-1] if len(targs) > 1 else ('-' if width == 1 else '?')
            recv = self.canon_recv(st, args[0], t['args'][0].get('p', {}).get('ty', ''))
            val = args[1] if rw == 'write' and len(args) > 1 else None
            return ('io', rw, recv, {'ty': ty, 'width': width, 'endian': endian, 'via': 'byteorder'}, val, site)
        k = STD_IO.get(decl)
        if k:
            recv = self.canon_recv(st, args[0], t['args'][0].get('p', {}).get('ty', ''))
            detail = {'via': 'std'}
            val = args[1] if len(args) > 1 else None
            if k in ('read_exact', 'write_all') and len(args) > 1:
                bt = t['args'][1]['p']['ty'] if t['args'][1]['k'] in ('copy', 'move') else ''
                m = re.search(r'\[u8; (\d+)', bt)
                if not m and val[0] == 'ref':
                    # look at the type of the referenced local
                    pv = val[1]
                    if pv[0][0] == 'L':
                        for f in st.frames:
                            if f.fid == pv[0][1]:
                                lt = f.fn['locals'][pv[0][2]]['ty']
                                m = re.search(r'\[u8; (\d+)', lt)
                if m:
                    detail['width'] = int(m.group(1))
                if val[0] == 'ref':
                    detail['content'] = self.read(st, val[1])
                    if k == 'read_exact':
                        self.write(st, val[1], ('ret', site, 'read_exact_buf'))
            return ('io', k, recv, detail, val, site)
        return None

    # -- std models ------------------------------------------------------------------------
    def model(self, st, fr, t, decl, rdef, args, site, dest, loopctx, work, finished):
        a0 = args[0] if args else None
        if decl == 'std::mem::size_of':
            so = t['fn'].get('size_of')
            if so is not None:
                return INT(so)
            return ('sizeof', t['fn']['args'][0])
        if decl == 'std::ops::Try::branch':
            if is_agg(a0, 'std::result::Result', 'Ok'):
                return agg('std::ops::ControlFlow', 'Continue', 0, (('0', agg_field(a0, '0')),))
            if is_agg(a0, 'std::result::Result', 'Err'):
                return agg('std::ops::ControlFlow', 'Break', 1, (('0', a0),))
            if is_agg(a0, 'std::option::Option', 'Some'):
                return agg('std::ops::ControlFlow', 'Continue', 0, (('0', agg_field(a0, '0')),))
            if is_agg(a0, 'std::option::Option', 'None'):
                return agg('std::ops::ControlFlow', 'Break', 1, (('0', NONE),))
            kv = st.variants.get(a0)
            aty = t['args'][0].get('p', {}).get('ty', '')
            kind = 'res' if aty.startswith('std::result::Result<') else 'opt'
            return ('trybranch', a0, kind) if kv is None else self.branch_known(a0, kv, t)
        if decl == 'std::ops::FromResidual::from_residual':
            if is_agg(a0, 'std::result::Result', 'Err'):
                # `?` between two Results with the same error type converts through the identity From<T> for T
                src_ty = t['args'][0].get('p', {}).get('ty') or ''
                dst_ty = t['dest']['ty']
                e1 = self.result_err_ty(src_ty)
                e2 = self.result_err_ty(dst_ty)
                if e1 is not None and e1 == e2:
                    return ERR(agg_field(a0, '0'))
                return ERR(('from', agg_field(a0, '0')))
            if is_agg(a0, 'std::option::Option', 'None'):
                return NONE
            return ('residual', a0)
        if decl in ('std::convert::From::from', 'std::convert::Into::into') and (rdef is None or not self.local_body(t)):
            if rdef in ('<T as std::convert::From<T>>::from', '<T as std::convert::Into<U>>::into') and \
                    t['args'][0].get('p', {}).get('ty') == t['dest']['ty']:
                return a0
            if rdef == '<T as std::convert::Into<U>>::into':
                # forwards to U::from(T); resolve a local impl when there is one
                tgt = self.find_from_impl(t['dest']['ty'], t['args'][0].get('p', {}).get('ty'))
                if tgt is not None and (self.inline is None or self.inline(tgt, t)):
                    return self.push_frame(st, fr, tgt, args, dest, t['target'], site)
            a_ = t['args'][0]
            src_ty = a_.get('p', {}).get('ty') or a_.get('ty')
            if src_ty in self.INT_RANGE and t['dest']['ty'] in self.INT_RANGE:
                return ('cast', a0, src_ty, t['dest']['ty'])      # lossless integer widening
            return ('from', a0)
        if decl == 'std::result::Result::<T, E>::and_then' or decl == 'std::option::Option::<T>::and_then':
            ok = 'Ok' if 'Result' in decl else 'Some'
            if is_agg(a0, None, ok):
                return self.apply_callable(st, fr, args[1], [agg_field(a0, '0')], dest, t['target'], site)
            if is_agg(a0):
                return a0
            return ('and_then', a0, args[1])
        if decl == 'std::result::Result::<T, E>::map' or decl == 'std::option::Option::<T>::map':
            ok = 'Ok' if 'Result' in decl else 'Some'
            if is_agg(a0, None, ok):
                return self.apply_callable(st, fr, args[1], [agg_field(a0, '0')], dest, t['target'], site,
                                           wrap=ok)
            if is_agg(a0):
                return a0
            return ('optmap', a0, args[1])
        if decl == 'std::result::Result::<T, E>::map_err':
            if is_agg(a0, None, 'Ok'):
                return a0
            if is_agg(a0, None, 'Err'):
                return self.apply_callable(st, fr, args[1], [agg_field(a0, '0')], dest, t['target'], site,
                                           wrap='Err')
            return ('map_err', a0, args[1])
        if decl == 'std::option::Option::<T>::ok_or':
            if is_agg(a0, None, 'Some'):
                return OK(agg_field(a0, '0'))
            if is_agg(a0, None, 'None'):
                return ERR(args[1])
            return ('ok_or', a0, args[1])
        if decl == 'std::result::Result::<T, E>::ok':
            if is_agg(a0, None, 'Ok'):
                return SOME(agg_field(a0, '0'))
            if is_agg(a0, None, 'Err'):
                return NONE
            return ('ok', a0)
        if decl == 'std::result::Result::<T, E>::is_ok' and is_agg(a0):
            return ('bool', a0[2] == 'Ok')
        if decl == 'std::result::Result::<T, E>::is_err' and is_agg(a0):
            return ('bool', a0[2] == 'Err')
        if decl in ('std::result::Result::<T, E>::unwrap', 'std::result::Result::<T, E>::expect',
                    'std::option::Option::<T>::unwrap', 'std::option::Option::<T>::expect'):
            if is_agg(a0, None, 'Ok') or is_agg(a0, None, 'Some'):
                pay = agg_field(a0, '0')
                if is_agg(a0, None, 'Ok') and pay[0] == 'ret' and self.assume_ok:
                    # Ok only by the success assumption: the failing alternative of that call would panic here
                    st.eff.append(('maypanic', decl, a0, site, fr.fn['def']))
                return pay
            if is_agg(a0, None, 'Err') or is_agg(a0, None, 'None'):
                st.eff.append(('panic', decl, site, fr.fn['def'], ()))
                self.finish(st, 'panic', finished)
                return 'stop'
            st.eff.append(('maypanic', decl, a0, site, fr.fn['def']))
            return ('unwrapped', a0)
        if decl in ('std::result::Result::<T, E>::unwrap_or', 'std::option::Option::<T>::unwrap_or',
                    'std::result::Result::<T, E>::unwrap_or_default', 'std::option::Option::<T>::unwrap_or_default'):
            if is_agg(a0, None, 'Ok') or is_agg(a0, None, 'Some'):
                return agg_field(a0, '0')
            if is_agg(a0, None, 'Err') or is_agg(a0, None, 'None'):
                return args[1] if len(args) > 1 else ('default',)
            return ('unwrap_or', a0, args[1] if len(args) > 1 else ('default',))
        if decl == 'std::option::Option::<&T>::copied' or decl == 'std::option::Option::<&T>::cloned':
            if is_agg(a0, None, 'Some'):
                return SOME(self.strip_ref(st, agg_field(a0, '0')))
            if is_agg(a0, None, 'None'):
                return a0
            return ('copied', a0)
        if decl in ('std::option::Option::<T>::as_ref', 'std::option::Option::<T>::as_mut', 'std::option::Option::<T>::as_deref',
                    'std::option::Option::<T>::as_deref_mut'):
            # as_deref: the referent seen through Deref (a Vec as its slice: the same collection here)
            if a0[0] == 'ref':
                v = self.read(st, a0[1])
                if is_agg(v, None, 'None'):
                    return NONE
                if is_agg(v, None, 'Some'):
                    return SOME(('ref', (a0[1][0], a0[1][1] + (('v', 'Some'), ('f', '0')))))
                kv = st.variants.get(v)
                if kv == 1:
                    return SOME(('ref', (a0[1][0], a0[1][1] + (('v', 'Some'), ('f', '0')))))
                if kv == 0:
                    return NONE
                return ('opt_as_ref', a0)
            return ('opt_as_ref', a0)
        if decl == 'std::option::Option::<T>::take':
            if a0[0] == 'ref':
                v = self.read(st, a0[1])
                self.write(st, a0[1], NONE, site)
                return v
            return ('take', a0)
        if decl in ('std::ops::Deref::deref', 'std::ops::DerefMut::deref_mut', 'std::vec::Vec::<T, A>::as_slice',
                    'std::vec::Vec::<T, A>::as_mut_slice', 'std::convert::AsRef::as_ref',
                    'std::borrow::Borrow::borrow') and not self.local_body(t):
            return a0
        if decl in ('std::vec::Vec::<T, A>::len', 'core::slice::<impl [T]>::len'):
            return ('len', self.strip_ref(st, a0))
        if decl == 'core::slice::<impl [T]>::is_empty' or decl == 'std::vec::Vec::<T, A>::is_empty':
            return ('bin', 'Eq', ('len', self.strip_ref(st, a0)), INT(0), 'usize')
        if decl in ('core::slice::<impl [T]>::iter', 'core::slice::<impl [T]>::iter_mut'):
            return ('iter', self.coll_of(st, a0), 'mut' if decl.endswith('iter_mut') else 'ref')
        if decl == 'std::iter::IntoIterator::into_iter':
            if rdef == '<I as std::iter::IntoIterator>::into_iter':
                return a0
            if a0[0] in ('iter', 'map', 'zip', 'windows', 'clonediter', 'into_iter', 'enumerate', 'skip'):
                return a0
            if is_agg(a0) and a0[1].startswith('std::ops::Range'):
                return a0
            if a0[0] == 'ref':
                return ('iter', self.coll_of(st, a0), 'ref')
            if a0[0] in ('elemref', 'param') and t['args'][0].get('p', {}).get('ty', '').startswith('&'):
                return ('iter', ('deref', a0), 'ref')
            return ('into_iter', a0)
        if decl == 'std::iter::Iterator::map' and not self.local_body(t):
            return ('map', a0, args[1])
        if decl == 'std::iter::Iterator::zip':
            b = args[1]
            if a0[0] == 'iter' and b[0] == 'skip' and b[1] == a0 and b[2] == INT(1):
                # `s.iter().zip(s.iter().skip(1))`: the consecutive pairs of s, i.e. `s.windows(2)` handing out (&w[0], &w[1])
                return ('windows', a0[1], INT(2), 'pairs')
            if b[0] not in ('iter', 'map', 'zip', 'into_iter'):
                b = ('into_iter', b)
            return ('zip', a0, b)
        if decl == 'std::iter::Iterator::enumerate':
            return ('enumerate', a0)
        if decl == 'std::iter::Iterator::skip' and not self.local_body(t):
            return ('skip', a0, args[1])
        if decl == 'core::slice::<impl [T]>::windows':
            return ('windows', self.coll_of(st, a0), args[1])
        if decl == 'std::clone::Clone::clone' and not self.local_body(t):
            v = self.strip_ref(st, a0)
            return v
        if decl == 'std::iter::Iterator::next' and site in self.forced_next:
            return self.forced_next[site]
        if decl == 'std::iter::Iterator::next' and not self.local_body(t):
            it = self.strip_ref(st, a0)
            base, fs = self.map_chain(it)
            if fs:
                # fork: exhausted / one more element, the element being fN(..f1(elem(base)))
                s2 = st.fork()
                s2.cons.append((('discr', ('next', it, site)), 0))
                self.write(s2, self.place(s2, s2.frames[-1], t['dest']), NONE)
                if t['target'] is not None:
                    s2.frames[-1].block = t['target']
                    if not self.leaves(s2, t['target'], loopctx, finished):
                        work.append(s2)
                st.cons.append((('discr', ('next', it, site)), 1))
                el = self.elem_of(base, site)
                post = tuple(('call', f) for f in fs[1:]) + ('Some',)
                return self.apply_callable(st, fr, fs[0], [el], dest, t['target'], site, post=post)
            r = ('next', it, site)
            return r
        if decl in ('std::iter::Iterator::sum', 'std::iter::Iterator::count') and not self.local_body(t):
            base, fs = self.map_chain(a0)
            name = decl.split('::')[-1]
            if name == 'count':
                if base[0] == 'iter':
                    return ('len', base[1])
                return ('count', base)
            el = self.elem_of(base, site)
            if fs:
                post = tuple(('call', f) for f in fs[1:]) + (('term', ('sum', base)),)
                return self.apply_callable(st, fr, fs[0], [el], dest, t['target'], site, post=post)
            return ('sum', base, el)
        if decl in ('std::iter::Iterator::collect',
                    'std::iter::FromIterator::from_iter', 'std::iter::Iterator::all', 'std::iter::Iterator::any',
                    'std::iter::Iterator::for_each', 'std::iter::Iterator::fold', 'std::iter::Iterator::last',
                    'std::iter::Iterator::max', 'std::iter::Iterator::min') and not self.local_body(t):
            name = decl.split('::')[-1]
            if name == 'from_iter':
                name = 'collect'
            if name in ('for_each', 'fold') and self.virtual_loops:
                r = self.virtual_loop(st, fr, name, a0, args[1:], dest, t['target'], site, loopctx, finished)
                if r is not None:
                    return r
            st.eff.append(('consume', name, a0, tuple(args[1:]), site))
            return (name, a0) + tuple(args[1:])
        if decl == 'std::iter::Iterator::find' and not self.local_body(t) and len(args) == 2:
            r = self.find_in_const(st, fr, self.strip_ref(st, a0), args[1], dest, t['target'], site, loopctx, work, finished)
            if r is not None:
                return r
        if decl == 'std::iter::once' and not self.local_body(t):
            return ('once', a0)
        if decl == 'std::iter::Iterator::chain' and not self.local_body(t) and len(args) == 2:
            return ('chain', a0, args[1])
        if decl == 'std::iter::Iterator::flat_map' and not self.local_body(t) and len(args) == 2:
            return ('flat_map', a0, args[1])
        if decl == 'core::slice::<impl [T]>::first':
            return ('first', self.coll_of(st, a0))
        if decl == 'core::slice::<impl [T]>::last':
            return ('last', self.coll_of(st, a0))
        if decl == 'core::slice::<impl [T]>::get' or decl == 'std::vec::Vec::<T, A>::get':
            return ('get', self.coll_of(st, a0), args[1])
        if decl in ('std::ops::Index::index', 'std::ops::IndexMut::index_mut') and not self.local_body(t):
            idx = args[1]
            base = a0
            if base[0] != 'ref':
                base = ('ref', (('T', base), ()))
            if idx[0] == 'agg' and idx[1].startswith('std::ops::Range'):
                return ('ref', (base[1][0], base[1][1] + (('range', idx),)))
            if idx[0] == 'elem':
                ip = self.index_path(st, base[1], idx)
                if ip[0][0] == 'T' and ip[0][1][0] == 'elemref' and not ip[1]:
                    return ip[0][1]
            return ('ref', (base[1][0], base[1][1] + (('i', idx),)))
        m_ = re.match(r'core::num::<impl (\w+)>::(checked|saturating|wrapping)_(add|sub|mul)$', decl)
        if m_ and len(args) == 2:
            ty_, mode, op = m_.group(1), m_.group(2), m_.group(3).capitalize()
            if mode == 'checked':
                return ('checked', op, args[0], args[1], ty_)
            if mode == 'saturating':
                return ('sat', op, args[0], args[1], ty_)
            return ('wrap', op, args[0], args[1], ty_)
        if decl in ('std::cmp::Ord::min', 'std::cmp::Ord::max', 'std::cmp::min', 'std::cmp::max') and len(args) == 2 \
                and not self.local_body(t) and t['dest']['ty'] in self.INT_RANGE:
            return ('imin' if decl.endswith('min') else 'imax', args[0], args[1], t['dest']['ty'])
        if decl == 'core::f64::<impl f64>::max':
            return ('f64max', args[0], args[1])
        if decl == 'core::f64::<impl f64>::min':
            return ('f64min', args[0], args[1])
        if decl == 'std::default::Default::default' and not self.local_body(t):
            ty = t['dest']['ty']
            if ty == 'f64':
                return ('f64', '0.0')
            if ty in self.INT_RANGE:
                return INT(0)
            return ('default', ty)
        if decl == 'std::vec::Vec::<T>::new':
            return ('vec', ())
        if decl == 'std::vec::Vec::<T>::with_capacity':
            st.eff.append(('alloc', 'with_capacity', a0, site, fr.fn['def'], t['dest']['ty']))
            return ('vec', ())
        if decl == 'std::vec::from_elem':
            st.eff.append(('alloc', 'from_elem', args[1], site, fr.fn['def'], t['dest']['ty']))
            return ('vecrep', args[0], args[1])
        if decl in ('std::vec::Vec::<T, A>::try_reserve', 'std::vec::Vec::<T, A>::try_reserve_exact') and len(args) == 2:
            # a reservation all the same (it fails instead of aborting, but it still asks for the memory); the call itself is
            # handled as the fallible opaque call it is
            st.eff.append(('alloc', decl.split('::')[-1], args[1], site, fr.fn['def'], ''))
        if decl in ('std::vec::Vec::<T, A>::reserve', 'std::vec::Vec::<T, A>::reserve_exact',
                    'std::vec::Vec::<T, A>::resize'):
            st.eff.append(('alloc', decl.split('::')[-1], args[1], site, fr.fn['def'], ''))
            return UNIT
        if decl == 'std::vec::Vec::<T, A>::push':
            if a0[0] == 'ref':
                old = self.read(st, a0[1])
                st.eff.append(('push', a0[1], args[1], site))
                if old[0] == 'vec':
                    self.write(st, a0[1], ('vec', old[1] + (args[1],)))
                else:
                    self.write(st, a0[1], ('pushed', old, args[1]))
                return UNIT
            return None
        if decl == 'core::slice::<impl [T]>::reverse':
            if a0[0] == 'ref':
                old = self.read(st, a0[1])
                st.eff.append(('mutate', 'reverse', a0[1], site))
                self.write(st, a0[1], ('reversed', old))
                return UNIT
            return None
        if decl in ('std::ops::FnMut::call_mut', 'std::ops::Fn::call', 'std::ops::FnOnce::call_once') and not self.local_body(t) \
                and len(args) == 2:
            # a callback handed to a higher-order helper (`read_one(source)` with `read_one: F`): call what the value is
            f_ = a0
            for _ in range(3):
                if f_[0] == 'ref':
                    f_ = self.read(st, f_[1])
                else:
                    break
            if f_[0] in ('closure', 'fnitem') and is_agg(args[1], 'tuple'):
                return self.apply_callable(st, fr, f_, [v for _, v in args[1][4]], dest, t['target'], site)
        if re.match(r'core::num::<impl i(8|16|32|64|128|size)>::is_(negative|positive)$', decl) and len(args) == 1:
            ty_ = decl.split('<impl ')[1].split('>')[0]
            return cmp_atom('Lt', a0, INT(0), ty_) if decl.endswith('negative') else cmp_atom('Lt', INT(0), a0, ty_)
        if decl in ('std::ops::Range::<Idx>::contains', 'std::ops::RangeInclusive::<Idx>::contains') and len(args) == 2:
            # `(a..b).contains(&x)` is `a <= x && x < b` (`<=` for `a..=b`): a boolean over two canonical comparison atoms
            r = self.strip_ref(st, a0)
            x = self.strip_ref(st, args[1])
            if is_agg(r) and agg_field(r, 'start') is not None and agg_field(r, 'end') is not None:
                ty_ = t['args'][1].get('p', {}).get('ty', '').lstrip('&') or '?'
                hi = 'Le' if 'Inclusive' in decl else 'Lt'
                return ('bin', 'BitAnd', cmp_atom('Le', agg_field(r, 'start'), x, ty_), cmp_atom(hi, x, agg_field(r, 'end'), ty_), 'bool')
        if decl in ('std::cmp::PartialEq::eq', 'std::cmp::PartialEq::ne') and not self.local_body(t):
            x = self.strip_ref(st, a0)
            y = self.strip_ref(st, args[1])
            op = 'Eq' if decl.endswith('eq') else 'Ne'
            if x[0] == 'ref' or y[0] == 'ref':
                x = self.strip_ref(st, x) if x[0] == 'ref' else x
                y = self.strip_ref(st, y) if y[0] == 'ref' else y
            # fieldless enum variants: equality is equality of discriminants
            if is_agg(x) and is_agg(y) and not x[4] and not y[4] and x[1] == y[1] and x[1] in self.F.adts:
                return ('bool', (x[2] == y[2]) == (op == 'Eq'))
            for a_, b_ in ((x, y), (y, x)):
                if is_agg(a_) and not a_[4] and a_[1] in self.F.adts and self.F.adts[a_[1]].get('kind') == 'enum' and not is_agg(b_) \
                        and all(not v_.get('fields') for v_ in self.F.adts[a_[1]]['variants']):
                    dv = self.discr_of(a_)
                    if dv is not None:
                        return cmp_atom(op, ('discr', b_), INT(dv), 'isize')
            return cmp_atom(op, x, y, 'partial_eq')
        if decl in ('std::boxed::Box::<T>::new_uninit', 'std::boxed::box_assume_init_into_vec_unsafe'):
            if decl.endswith('into_vec_unsafe'):
                content = self.read(st, (('T', a0), ()))
                if is_agg(content, 'array'):
                    return ('vecarr', content)
                # `vec![..]`: the array was stored through a raw pointer derived from the box
                for (root, _pr), val in st.mem.items():
                    if root[0] == 'T' and is_agg(val, 'array') and contains(root[1], a0):
                        return ('vecarr', val)
                return ('vecof', a0)
            return ('boxuninit', site)
        if decl == 'std::hint::unreachable_unchecked':
            self.finish(st, 'diverge', finished)
            return 'stop'
        if decl == 'std::mem::replace' or decl == 'std::mem::take':
            if a0[0] == 'ref':
                old = self.read(st, a0[1])
                self.write(st, a0[1], args[1] if len(args) > 1 else ('default',), site)
                return old
        if decl == 'std::mem::drop' or decl == 'std::mem::forget':
            st.eff.append(('discard', decl, a0, site))
            return UNIT
        return None

    def map_chain(self, it):
        fs = []
        while it[0] == 'map':
            fs.append(it[2])
            it = it[1]
        fs.reverse()
        return it, fs

    def elem_of(self, base, site):
        if base[0] == 'zip':
            return agg('tuple', '', 0, (('0', self.elem_of(base[1], site)), ('1', self.elem_of(base[2], site))))
        if base[0] == 'windows' and len(base) == 4:
            w = ('elem', base[:3], site)
            return agg('tuple', '', 0, (('0', ('ref', (('T', w), (('i', INT(0)),)))), ('1', ('ref', (('T', w), (('i', INT(1)),))))))
        if base[0] == 'iter':
            # element of a slice iterator: a reference to the element location
            return ('elemref', base[1], site)
        return ('elem', base, site)

    def branch_known(self, a0, kv, t):
        ty = t['args'][0].get('p', {}).get('ty', '')
        if ty.startswith('std::result::Result<'):
            if kv == 0:
                return agg('std::ops::ControlFlow', 'Continue', 0, (('0', ('proj', a0, (('v', 'Ok'), ('f', '0')))),))
            return agg('std::ops::ControlFlow', 'Break', 1, (('0', ERR(('proj', a0, (('v', 'Err'), ('f', '0'))))),))
        if kv == 1:
            return agg('std::ops::ControlFlow', 'Continue', 0, (('0', ('proj', a0, (('v', 'Some'), ('f', '0')))),))
        return agg('std::ops::ControlFlow', 'Break', 1, (('0', NONE),))

    def local_body(self, t):
        r = t['fn'].get('resolved')
        return bool(r and r.get('has_body') and r.get('krate') == self.F.crate)

    def coll_of(self, st, ptr):
        """Collection term for a pointer to a slice/Vec: use the location so that equal
        collections compare equal structurally."""
        if ptr[0] == 'ref':
            v = self.read(st, ptr[1])
            if v[0] in ('load', 'undef') or v[0] == 'lv':
                return ('at', ptr[1])
            return v
        if ptr[0] == 'at':
            return ptr
        return ('deref', ptr)

    def find_from_impl(self, to_ty, from_ty):
        if not from_ty:
            return None
        for i in self.F.impls:
            if i.get('trait') == 'std::convert::From' and i['self_ty'] == to_ty and i.get('trait_args', [None, None])[1:] == [from_ty]:
                for m in i['methods']:
                    if m['name'] == 'from':
                        return self.F.fns.get(m['key'])
        return None

    def closure_arg(self, st, target, f, site):
        """first argument of a closure body: the closure itself (FnOnce) or a reference to it (Fn / FnMut bodies take `&self`)"""
        if f[0] == 'closure' and len(target.get('locals', [])) > 1 and target['locals'][1]['ty'].startswith('&'):
            root = ('T', ('closure_env', site))
            st.mem[(root, ())] = f
            return ('ref', (root, ()))
        return f

    def find_in_const(self, st, fr, it, f, dest, ret_target, site, loopctx, work, finished):
        """`TABLE.iter().find(|e| pred(e))` over a constant array with a pure closure of this crate: the search is unrolled —
        one path per element (the predicates of the earlier elements false, this one true, result Some(&element)) and one path
        on which every predicate is false (None) — which is the decision tree a `match` over the same table compiles to."""
        if not (isinstance(it, tuple) and it and it[0] == 'iter'):
            return None
        coll = it[1]
        while isinstance(coll, tuple) and coll and coll[0] in ('deref',):
            coll = coll[1]
        if isinstance(coll, tuple) and coll and coll[0] == 'constref':
            coll = coll[1]
        if not is_agg(coll, 'array') or any(
                isinstance(x, tuple) and x and x[0] not in ('agg', 'int', 'bool', 'f64') for _, x in coll[4]):
            return None                 # only a table of constants
        elems = [v for _, v in coll[4]]
        if f[0] != 'closure' or len(elems) > 64:
            return None
        target = self.F.fns.get(f[1])
        if target is None or 'blocks' not in target or target.get('krate') != self.F.crate:
            return None
        depth = len(st.frames) + 1
        preds = []
        for el in elems:
            probe = st.fork()
            # Iterator::find hands the predicate a reference to the item, and the item of a slice iterator is itself a reference
            self.push_frame(probe, probe.frames[-1], target, [self.closure_arg(probe, target, f, site), ('constref', ('constref', el))],
                            dest, ret_target, site)
            res = []
            saved = self.npaths
            self.explore([probe], ('ret', depth), res)
            self.npaths = saved
            exits = [x for x in res if x.status == 'exit']
            if len(exits) != 1 or len(res) != 1 or len(exits[0].eff) != len(st.eff):
                return None             # not a pure single-path predicate
            preds.append(self.read(exits[0], dest))

        def constrain(s_, pr, truth):
            if pr[0] == 'bin' and pr[1] in ('Eq', 'Ne') and pr[3][0] == 'int' and pr[2][0] != 'int':
                eq = (pr[1] == 'Eq') == truth
                s_.cons.append((pr[2], pr[3][1] if eq else ('not', (pr[3][1],))))
            else:
                s_.cons.append((pr, 1 if truth else 0))
        for i, (el, pr) in enumerate(zip(elems, preds)):
            if pr == ('bool', False):
                continue
            s2 = st.fork()
            for pj in preds[:i]:
                if pj[0] != 'bool':
                    constrain(s2, pj, False)
            if pr[0] != 'bool':
                constrain(s2, pr, True)
            self.write(s2, dest, SOME(('constref', el)))
            if ret_target is not None:
                s2.frames[-1].block = ret_target
                if not self.leaves(s2, ret_target, loopctx, finished):
                    work.append(s2)
            if pr == ('bool', True):
                return 'stop'
        for pj in preds:
            if pj[0] != 'bool':
                constrain(st, pj, False)
        return NONE

    def virtual_loop(self, st, fr, name, it, rest, dest, ret_target, site, loopctx, finished):
        """`iter.for_each(|x| body)` and `iter.fold(init, |acc, x| body)` with a closure (or fn item) of this crate are the loops
        `for x in iter { body }` / `let mut acc = init; for x in iter { acc = body }`: the closure is explored once with the loop's
        element (and an unknown accumulator), the memory it changes is carried, and the result is recorded as a `loop` effect with
        one body per path of the closure, exactly as a `for` loop is.  Returns the value of the call, or None when this does not apply."""
        base, fs = self.map_chain(it)
        if fs:
            return None
        f = rest[-1] if rest else None
        if f is None or f[0] not in ('closure', 'fnitem'):
            return None
        target = self.F.fns.get(f[1]) if f[0] == 'closure' else (self.F.fns.get(f[2]) if f[2] else None)
        if target is None or 'blocks' not in target or target.get('krate') != self.F.crate or len(st.frames) >= MAX_DEPTH:
            return None
        if f[0] == 'fnitem' and self.inline is not None:
            try:
                if not self.inline(target, None):
                    return None             # the caller keeps this function opaque: stay with the `consume` effect
            except Exception:
                return None
        uid = site
        lvname = site_str(uid) + '#' + name
        el = self.elem_of(base, site)
        acc_lv = ('lv', lvname, 'acc')
        argv = [el] if name == 'for_each' else [acc_lv, el]
        cargs = ([self.closure_arg(st, target, f, site)] + argv) if f[0] == 'closure' else argv
        entry_mem = dict(st.mem)
        depth = len(st.frames) + 1

        def run(W):
            base_st = st.fork()
            mark, ncons = len(base_st.eff), len(base_st.cons)
            for p_ in sorted(W, key=lambda q: (len(q[1]), repr(q))):
                self.write_quiet(base_st, p_, ('lv', lvname, path_str(p_)))
            self.push_frame(base_st, base_st.frames[-1], target, cargs, dest, ret_target, site)
            res = []
            saved = self.npaths
            self.explore([base_st], ('ret', depth), res)
            self.npaths = saved
            return res, mark, ncons
        W = set()
        for _ in range(5):
            res, mark, ncons = run(W)
            W2 = set(W)
            for s_ in res:
                if s_.status != 'exit':
                    continue
                for key, val in s_.mem.items():
                    if key == dest or (key[0] == dest[0] and key[1][:len(dest[1])] == dest[1]):
                        continue
                    if key[0][0] == 'L' and key[0][1] > fr.fid and not self.frame_alive(st, key[0][1]):
                        continue
                    if entry_mem.get(key) != val and not (val[0] == 'lv' and val[1] == lvname):
                        if key[0][0] == 'T' and self.mentions_elem_of(key[0][1], uid):
                            continue
                        W2.add(key)
            if W2 == W:
                break
            W = W2
        else:
            return None
        res, mark, ncons = run(W)
        bodies = []
        for s_ in res:
            if s_.status == 'exit':
                bodies.append({'eff': s_.eff[mark:], 'cons': s_.cons[ncons:], 'mem': s_.mem, 'result': s_.mem.get(dest)})
            else:
                finished.append(s_)             # a panic / divergence inside the closure
        info = {'kind': 'for', 'site': uid, 'fn': fr.fn['def'], 'iter': self.strip_ref(st, base) if base[0] == 'ref' else base,
                'virtual': name, 'carried': sorted(path_str(p_) for p_ in W), 'entry': {path_str(p_): self.read(st, p_) for p_ in W},
                'carried_paths': {path_str(p_): p_ for p_ in W}}
        if name == 'fold':
            info['init'] = rest[0]
        for p_ in sorted(W, key=lambda q: (len(q[1]), repr(q))):
            self.write_quiet(st, p_, ('lv', lvname, path_str(p_)))
        st.eff.append(('loop', uid, info, bodies))
        return UNIT if name == 'for_each' else ('lv', lvname, 'result')

    def apply_callable(self, st, fr, f, argv, dest, ret_target, site, wrap=None, post=()):
        """Call closure / fn item `f` with argv.  Returns 'pushed' when a frame was pushed (its
        result, after the post actions, is written to dest), else the resulting term (post applied
        as far as possible without further calls)."""
        if wrap:
            post = (wrap,) + tuple(post)
        target = None
        cargs = None
        if f[0] == 'closure':
            target = self.F.fns.get(f[1])
            cargs = [f] + list(argv)
        elif f[0] == 'fnitem':
            if f[2]:
                target = self.F.fns.get(f[2])
            cargs = list(argv)
            if target is None and f[3] and re.search(r'::[A-Z][A-Za-z0-9]*$', f[3]) and \
                    '::'.join(f[3].split('::')[:-1]) in self.F.adts:
                # enum tuple-variant constructor used as a function
                adt = '::'.join(f[3].split('::')[:-1])
                val = agg(adt, f[3].split('::')[-1], -1, [(str(i), a) for i, a in enumerate(argv)])
                return self.finish_post(st, fr, val, post, dest, ret_target, site)
        if target is not None and 'blocks' in target and target.get('krate') == self.F.crate \
                and len(st.frames) < MAX_DEPTH:
            return self.push_frame(st, fr, target, cargs, dest, ret_target, site, post=tuple(post))
        if f[0] == 'fnitem' and f[3] in ('core::slice::<impl [T]>::iter', 'core::slice::<impl [T]>::iter_mut') and len(argv) == 1:
            # `.map(<[T]>::iter)`: the same value as the method call
            return self.finish_post(st, fr, ('iter', self.coll_of(st, argv[0]), 'mut' if f[3].endswith('iter_mut') else 'ref'),
                                    post, dest, ret_target, site)
        if f[0] == 'fnitem' and f[3] in ('std::vec::Vec::<T, A>::len', 'core::slice::<impl [T]>::len') and len(argv) == 1:
            # `.map(Vec::len)`: the same value as the method call
            return self.finish_post(st, fr, ('len', self.coll_of(st, argv[0])), post, dest, ret_target, site)
        val = ('apply', f, tuple(argv))
        st.eff.append(('call', 'apply', f[3] if f[0] == 'fnitem' else None, (f,) + tuple(argv), site, val))
        return self.finish_post(st, fr, val, post, dest, ret_target, site)

    def finish_post(self, st, fr, rv, post, dest, ret_target, site):
        post = tuple(post)
        while post:
            act, post = post[0], post[1:]
            if isinstance(act, str):
                rv = self.wrapv(rv, act)
            elif act[0] == 'term':
                rv = act[1] + (rv,)
            elif act[0] == 'call':
                r = self.apply_callable(st, fr, act[1], [rv], dest, ret_target, site, post=post)
                return r
        return rv

    def is_ctor(self, f):
        return True

    def wrapv(self, val, wrap):
        if wrap == 'Ok':
            return OK(val)
        if wrap == 'Err':
            return ERR(val)
        if wrap == 'Some':
            return SOME(val)
        return val
