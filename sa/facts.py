"""E0 front end: run the shpfacts driver on /repo's current working tree and load the facts.

Facts are cached under .work/facts/<tree-hash>/<config>/ where <tree-hash> is a SHA-256 over every
file of /repo's working tree (target/ and .git/ excluded) and over the driver binary, so a changed
tree is always re-extracted.  Extraction is serialised with flock.
"""
import fcntl
import hashlib
import json
import os
import re
import shutil
import subprocess
import sys
import time

VERIF = os.path.dirname(os.path.dirname(os.path.abspath(__file__)))
REPO = os.environ.get("SHP_REPO", "/repo")
WORK = os.path.join(VERIF, ".work")
DRIVER_SRC = os.path.join(VERIF, "driver")
DRIVER_BIN = os.path.join(WORK, "driver-target", "release", "shpfacts")

CONFIGS = {
    "default": [],
    "geo": ["--features", "geo-types,geo-traits"],
}


class ExtractionError(Exception):
    pass


def _sysroot():
    return subprocess.check_output(["rustc", "+nightly", "--print", "sysroot"], text=True).strip()


def tree_hash(repo=REPO):
    h = hashlib.sha256()
    for root, dirs, files in os.walk(repo):
        dirs[:] = sorted(d for d in dirs if d not in ("target", ".git"))
        for f in sorted(files):
            p = os.path.join(root, f)
            rel = os.path.relpath(p, repo)
            h.update(rel.encode())
            h.update(b"\0")
            try:
                with open(p, "rb") as fh:
                    h.update(hashlib.sha256(fh.read()).digest())
            except OSError:
                h.update(b"?")
    if os.path.exists(DRIVER_BIN):
        with open(DRIVER_BIN, "rb") as fh:
            h.update(hashlib.sha256(fh.read()).digest())
    return h.hexdigest()[:24]


def build_driver(force=False):
    if os.path.exists(DRIVER_BIN) and not force:
        # rebuild when sources are newer than the binary
        src_m = max(
            os.path.getmtime(os.path.join(DRIVER_SRC, p))
            for p in ("src/main.rs", "Cargo.toml")
        )
        if os.path.getmtime(DRIVER_BIN) >= src_m:
            return
    env = dict(os.environ)
    env["CARGO_TARGET_DIR"] = os.path.join(WORK, "driver-target")
    env["CARGO_NET_OFFLINE"] = "true"
    r = subprocess.run(
        ["cargo", "+nightly", "build", "--release", "--offline"],
        cwd=DRIVER_SRC, env=env, stdout=subprocess.PIPE, stderr=subprocess.STDOUT, text=True,
    )
    if r.returncode != 0 or not os.path.exists(DRIVER_BIN):
        raise ExtractionError("driver build failed:\n" + r.stdout[-4000:])


def _run_driver(config, outdir, manifest_dir, crates="shapefile,shp_witness", target_tag=None):
    env = dict(os.environ)
    env["LD_LIBRARY_PATH"] = os.path.join(_sysroot(), "lib") + ":" + env.get("LD_LIBRARY_PATH", "")
    env["RUSTFLAGS"] = "-Zmir-opt-level=0 -Zalways-encode-mir -Awarnings"
    env["RUSTC_WORKSPACE_WRAPPER"] = DRIVER_BIN
    tdir = os.path.join(WORK, "deps-" + (target_tag or config))
    env["CARGO_TARGET_DIR"] = tdir
    env["CARGO_NET_OFFLINE"] = "true"
    env["SHPFACTS_OUT"] = outdir
    env["SHPFACTS_CRATES"] = crates
    env.pop("RUSTC_WRAPPER", None)
    # cargo's freshness cache would skip the wrapper: drop the member fingerprints
    fp = os.path.join(tdir, "debug", ".fingerprint")
    if os.path.isdir(fp):
        for d in os.listdir(fp):
            if d.startswith("shapefile-") or d.startswith("shp_witness-") or d.startswith("shp-witness-"):
                shutil.rmtree(os.path.join(fp, d), ignore_errors=True)
    cmd = ["cargo", "+nightly", "check", "--offline", "--lib"] + CONFIGS[config]
    r = subprocess.run(cmd, cwd=manifest_dir, env=env, stdout=subprocess.PIPE,
                       stderr=subprocess.STDOUT, text=True)
    return r


def extract(config, repo=REPO, quiet=True):
    """Return (path to facts json, tree hash, extracted_now)."""
    os.makedirs(WORK, exist_ok=True)
    lock = open(os.path.join(WORK, "extract.lock"), "w")
    fcntl.flock(lock, fcntl.LOCK_EX)
    try:
        build_driver()
        th = tree_hash(repo)
        outdir = os.path.join(WORK, "facts", th, config)
        out = os.path.join(outdir, "shapefile.json")
        if os.path.exists(out) and os.path.getsize(out) > 1000:
            return out, th, False
        os.makedirs(outdir, exist_ok=True)
        t0 = time.time()
        r = _run_driver(config, outdir, repo, crates="shapefile")
        if r.returncode != 0:
            raise ExtractionError(
                "cargo check of %s (config %s) failed — the tree does not build:\n%s"
                % (repo, config, r.stdout[-6000:]))
        if not os.path.exists(out):
            raise ExtractionError("driver wrote no fact file (config %s):\n%s" % (config, r.stdout[-3000:]))
        if not quiet:
            sys.stderr.write("extracted %s in %.1fs\n" % (config, time.time() - t0))
        _gc_facts(keep=th)
        return out, th, True
    finally:
        fcntl.flock(lock, fcntl.LOCK_UN)
        lock.close()


def _gc_facts(keep, limit=6):
    base = os.path.join(WORK, "facts")
    try:
        ents = [(os.path.getmtime(os.path.join(base, d)), d) for d in os.listdir(base)]
    except OSError:
        return
    ents.sort(reverse=True)
    for _, d in ents[limit:]:
        if d != keep:
            shutil.rmtree(os.path.join(base, d), ignore_errors=True)


_CLOSURE_RE = re.compile(r"\{closure@[^}]*\}")


def norm_key(k):
    """Strip file:line from closure type names so keys never depend on positions."""
    return _CLOSURE_RE.sub("{closure}", k)


class Facts:
    def __init__(self, path, config, tree):
        self.path = path
        self.config = config
        self.tree = tree
        with open(path) as fh:
            d = json.load(fh)
        self.raw = d
        self.crate = d["crate"]
        self.adts = {a["path"]: a for a in d["adts"]}
        self.impls = d["impls"]
        self.sizes = d["sizes"]
        self.fns = d["fns"]
        self.by_def = {}
        for k, f in self.fns.items():
            if "blocks" not in f:
                continue
            self.by_def.setdefault(f["def"], []).append(f)

    # --- lookups -------------------------------------------------------------------------
    def identity(self, def_path):
        for f in self.by_def.get(def_path, []):
            if f.get("identity"):
                return f
        return None

    def fn(self, key):
        return self.fns.get(key)

    def instances(self, def_path):
        return self.by_def.get(def_path, [])

    def local_fns(self, include_tests=False):
        for f in self.fns.values():
            if "blocks" not in f or not f.get("local"):
                continue
            if not include_tests and is_test_fn(f):
                continue
            yield f

    def identity_fns(self, include_tests=False):
        for f in self.local_fns(include_tests):
            if f.get("identity"):
                yield f

    def trait_impls(self, trait):
        return [i for i in self.impls if i.get("trait") == trait]

    def impl_method(self, trait, self_ty, name):
        for i in self.impls:
            if i.get("trait") == trait and i["self_ty"] == self_ty:
                for m in i["methods"]:
                    if m["name"] == name:
                        return self.fns.get(m["key"]) or self.identity(m["def"])
        return None

    def inherent_method(self, self_ty_prefix, name):
        out = []
        for i in self.impls:
            if "trait" in i:
                continue
            if i["self_ty"] == self_ty_prefix or i["self_ty"].startswith(self_ty_prefix + "<"):
                for m in i["methods"]:
                    if m["name"] == name:
                        f = self.fns.get(m["key"]) or self.identity(m["def"])
                        if f:
                            out.append(f)
        return out


def is_test_fn(f):
    d = f["def"]
    if f.get("test"):
        return True
    return "::tests::" in d or "::test::" in d or "test_geo_types" in d or d.startswith("tests::")


_cache = {}


def load(config, repo=REPO):
    path, th, fresh = extract(config, repo)
    key = (path,)
    if key not in _cache:
        _cache[key] = Facts(path, config, th)
    f = _cache[key]
    f.fresh = fresh
    return f
