"""Witness crate support (thorough tier): facts of /verif/witness, compile_fail doctests, controls."""
import hashlib
import os
import re
import shutil
import subprocess

from . import absint, discipline, facts as factsmod, mir, taint
from .absint import is_agg
from .report import BrokenChecker

WIT = os.path.join(factsmod.VERIF, "witness")


def _prepared_copy():
    """scratch copy of the witness crate whose path dependency points at the tree under analysis"""
    repo = factsmod.REPO
    h = hashlib.sha256()
    for fn in ("Cargo.toml", "src/lib.rs"):
        h.update(open(os.path.join(WIT, fn), "rb").read())
    h.update(repo.encode())
    d = os.path.join(factsmod.WORK, "witness-src", h.hexdigest()[:16])
    if not os.path.exists(os.path.join(d, "src", "lib.rs")):
        os.makedirs(os.path.join(d, "src"), exist_ok=True)
        toml = open(os.path.join(WIT, "Cargo.toml")).read().replace('path = "/repo"', 'path = "%s"' % repo)
        open(os.path.join(d, "Cargo.toml"), "w").write(toml)
        shutil.copy(os.path.join(WIT, "src", "lib.rs"), os.path.join(d, "src", "lib.rs"))
        lock = os.path.join(repo, "Cargo.lock")
        if os.path.exists(lock):
            shutil.copy(lock, os.path.join(d, "Cargo.lock"))
    return d


_cache = {}


def load():
    th = factsmod.tree_hash(factsmod.REPO)
    if th in _cache:
        return _cache[th]
    factsmod.build_driver()
    d = _prepared_copy()
    wh = hashlib.sha256(open(os.path.join(WIT, "src", "lib.rs"), "rb").read()).hexdigest()[:10]
    outdir = os.path.join(factsmod.WORK, "facts", th, "witness-" + wh)
    out = os.path.join(outdir, "shp_witness.json")
    if not os.path.exists(out):
        os.makedirs(outdir, exist_ok=True)
        r = factsmod._run_driver("default", outdir, d, crates="shp_witness", target_tag="witness")
        if r.returncode != 0 or not os.path.exists(out):
            raise BrokenChecker("witness crate does not build against this tree:\n" + r.stdout[-3000:])
    F = factsmod.Facts(out, "witness", th)
    _cache[th] = F
    return F


def doctests():
    """run the compile_fail witnesses and their compiling twins; returns (passed, failed, output tail)"""
    d = _prepared_copy()
    env = dict(os.environ)
    env["CARGO_TARGET_DIR"] = os.path.join(factsmod.WORK, "witness-target")
    env["CARGO_NET_OFFLINE"] = "true"
    for k in ("RUSTC_WORKSPACE_WRAPPER", "RUSTFLAGS"):
        env.pop(k, None)
    r = subprocess.run(["cargo", "+nightly", "test", "--doc", "--offline"], cwd=d, env=env, stdout=subprocess.PIPE,
                       stderr=subprocess.STDOUT, text=True)
    m = re.search(r"test result: \w+\. (\d+) passed; (\d+) failed", r.stdout)
    if not m:
        return 0, -1, r.stdout[-1500:]
    names = re.findall(r"test src/lib.rs - (\w+) \(line \d+\)( - compile fail)? \.\.\. (\w+)", r.stdout)
    return int(m.group(1)), int(m.group(2)), names


def macro_witnesses(ctx, rule):
    """every form of polygon!/multipatch! must expand to the ring-closing constructors"""
    F = load()
    n = 0
    for f in F.identity_fns():
        if "::macros::" not in f["def"] and not f["def"].startswith("macros::"):
            continue
        n += 1
        cs = [mir.callee_def(t) or "" for _, t in mir.calls(f)]
        want = "with_rings" if "polygon" in f["def"] else "with_parts"
        ok = any(c.endswith("::" + want) and ("GenericPolygon" in c or "Multipatch" in c) for c in cs)
        ctx.ob(rule, f["def"].split("::")[-1], ok, "expands to %s" % sorted(set(c.split("::")[-1] for c in cs if "record::" in c or "shapefile" in c))[:6],
               key="%s|%s" % (rule, f["def"].split("::")[-1]))
    return n


_PT = ('Point', 'PointM', 'PointZ')
_ORDER = {'Point': ('x', 'y'), 'PointM': ('x', 'y', 'm'), 'PointZ': ('x', 'y', 'z', 'm')}


def macro_bindings(ctx, rule, Fd):
    """every coordinate written in a macro call lands in the field it was written for: the witness functions use literals that
    say where they belong (vertex i: 10i+1, 10i+2, 10i+3, 10i+4 in the order of the type's fields); the points the expansion
    builds (struct literals, or calls of the PointX::new constructors whose parameter-to-field binding is read from the
    library's own facts) are compared with them"""
    F = load()
    # constructors of the library: parameter k -> field
    ctor = {}
    for ty in _PT:
        g = Fd.identity("record::point::%s::new" % ty)
        if g is None:
            continue
        try:
            ps = absint.Interp(Fd).run(g)
        except absint.Unanalysable:
            continue
        b = None
        for p in ps:
            if p.status == 'return' and is_agg(p.ret):
                b = {k: v[1] for k, v in p.ret[4] if isinstance(v, tuple) and v and v[0] == 'param'}
        ctor[ty] = b
        good = b is not None and all(b.get(fld) == i + 1 for i, fld in enumerate(_ORDER[ty]))
        ctx.ob(rule, "%s::new binds its parameters in field order" % ty, good,
               "parameter -> field: %s" % (sorted(b.items(), key=lambda kv: kv[1]) if b else "not a plain aggregate"),
               key="%s|ctor|%s" % (rule, ty))
    n = 0
    for f in F.identity_fns():
        if "::macros::" not in f["def"] and not f["def"].startswith("macros::"):
            continue
        try:
            ps = absint.Interp(F, inline=lambda g, t: False).run(f)
        except absint.Unanalysable as e:
            ctx.unanalysable(rule, f["def"], str(e))
            continue
        pts = []
        for p in ps:
            for e in list(p.eff) + [p.ret]:
                for x in absint.subterms(e):
                    if is_agg(x) and x[1].split('::')[-1] in _PT and all(isinstance(v, tuple) and v[0] == 'f64' for _, v in x[4]):
                        pts.append((x[1].split('::')[-1], {k: float(v[1]) for k, v in x[4]}))
                if isinstance(e, tuple) and e and e[0] == 'call':
                    nm = str(e[2] or e[1])
                    for ty in _PT:
                        if nm.split('::<')[0].endswith("%s::new" % ty) and ctor.get(ty):
                            args = e[3]
                            if all(isinstance(a, tuple) and a and a[0] == 'f64' for a in args):
                                pts.append((ty, {fld: float(args[k - 1][1]) for fld, k in ctor[ty].items() if k - 1 < len(args)}))
        bad = []
        for ty, flds in pts:
            base = None
            for i, fld in enumerate(_ORDER[ty]):
                v = flds.get(fld)
                if v is None or int(v) % 10 != i + 1:
                    bad.append("%s.%s = %s" % (ty, fld, v))
                elif base is None:
                    base = int(v) // 10
                elif int(v) // 10 != base:
                    bad.append("%s.%s = %s comes from another vertex" % (ty, fld, v))
        n += 1
        ctx.ob(rule, "coordinates of " + f["def"].split("::")[-1], bool(pts) and not bad,
               "%d points built, each field holds the literal written for it" % len(pts) if pts and not bad else
               ("no point found in the expansion" if not pts else "a coordinate lands in the wrong field: %s" % sorted(set(bad))[:3]),
               key="%s|bind|%s" % (rule, f["def"].split("::")[-1]))
    return n


def _control(F, name):
    for f in F.identity_fns():
        if f["def"].endswith("controls::" + name):
            return f
    raise BrokenChecker("control %s missing from the witness crate" % name)


def controls(which):
    """Run the named zero-count rules on their controls; raise BrokenChecker when one is not flagged.
    Returns list of flagged control names."""
    F = load()
    flagged = []

    class Sink:
        def __init__(self):
            self.bad = 0

        def ob(self, rule, inst, ok, *a, **k):
            if not ok:
                self.bad += 1

        def unanalysable(self, *a, **k):
            self.bad += 1

        def site_of(self, *a, **k):
            return None

        def site_of_sitetuple(self, *a, **k):
            return None
    for w in which:
        s = Sink()
        if w == "short_write":
            discipline.banned_calls(s, F, "ctl", {"std::io::Write::write"}, [_control(F, "control_short_write")], "")
        elif w == "short_read":
            discipline.banned_calls(s, F, "ctl", {"std::io::Read::read"}, [_control(F, "control_short_read")], "")
        elif w == "dropped_error":
            discipline.check(s, F, "ctl", [_control(F, "control_dropped_error")])
        elif w in ("fold_drops_error", "count_discards"):
            discipline.check_accumulators(s, F, "ctl", [_control(F, "control_" + w)])
        elif w == "ok_swallow":
            discipline.check(s, F, "ctl", [_control(F, "control_ok_swallow")])
        elif w in ("tainted_mul", "tainted_alloc", "unwrap"):
            f = _control(F, "control_" + w)
            ps = absint.Interp(F).run(f)
            for p in ps:
                for sk in taint.sinks_of_path(p, {}, F):
                    if w == "tainted_mul" and sk.kind == "arith" and sk.hazard and sk.tainted:
                        s.bad += 1
                    if w == "tainted_alloc" and sk.kind == "alloc" and sk.hazard and sk.tainted:
                        s.bad += 1
                    if w == "unwrap" and sk.kind in ("unwrap", "panic"):
                        s.bad += 1
                if w == "unwrap" and p.status == "panic":
                    s.bad += 1
        elif w == "reorder":
            from .rules.C20 import REORDER
            f = _control(F, "control_reorder")
            for b, t in mir.calls(f):
                if mir.callee_decl(t) in REORDER:
                    s.bad += 1
        else:
            raise BrokenChecker("unknown control " + w)
        if s.bad == 0:
            raise BrokenChecker("control `%s` was not flagged by its rule: the rule is broken" % w)
        flagged.append(w)
    return flagged
