"""E3 error discipline, decided by abstract fault enumeration.

For every function in a given set and every fallible call site in it (a call whose result type is
`Result<_, _>`: I/O primitives, std calls, local functions — analysed modularly, local named callees
are opaque, closures handed to combinators are followed), the abstract interpreter is run with that
one site returning `Err(e)`.  The rule holds for the site when, on every abstract path that executes
the site, the function returns a value that carries `e` inside an error position (`Err(..e..)` or
`Some(Err(..e..))`) and no path reaches a panic.  This needs no list of accepted idioms: `?`, match
arms, `map_err`, `and_then` chains all satisfy it; `let _ =`, `.ok()`, `unwrap_or`, `is_ok()`,
storing the result in a field do not.
"""
from . import absint, mir
from .absint import is_agg, agg_field


def modular_inline(g, t):
    """modular analysis: follow closures, and local From/Into conversions (they only re-wrap the error)"""
    if g.get("kind") == "Closure":
        return True
    return g.get("impl_trait") in ("std::convert::From", "std::convert::Into") and len(g.get("blocks", [])) <= 12


def site_effects(path):
    for e in absint.flat_effects(path.eff):
        if e[0] == 'io':
            yield e[5], e
        elif e[0] == 'call':
            yield e[4], e


def carries_error(ret, err):
    """ret holds `err` in an error position"""
    if ret is None:
        return False
    if is_agg(ret, None, 'Err'):
        return absint.contains(ret, err)
    if is_agg(ret, None, 'Some'):
        return carries_error(agg_field(ret, '0'), err)
    return False


VALUE_FREE = ('std::convert::num::',)


def error_position(ret):
    if ret is None:
        return False
    if is_agg(ret, None, 'Err'):
        return True
    if is_agg(ret, None, 'Some'):
        return error_position(agg_field(ret, '0'))
    return False


def fallible_sites(F, f, **kw):
    I = absint.Interp(F, inline=modular_inline, **kw)
    try:
        paths = I.run(f)
    except absint.Unanalysable as e:
        return None, None, str(e)
    seen = []
    for s, what in I.fallible_sites:
        if (s, what) not in seen:
            seen.append((s, what))
    return seen, paths, None


def site_dest_ty(F, site):
    """type of the value the call at `site` returns (the terminator's destination)"""
    fn_def, b = site[-1]
    g = F.identity(fn_def)
    if g is None:
        return None
    t = g["blocks"][b]["term"]
    return (t.get("dest") or {}).get("ty")


def site_label(f, site, what, sites):
    """stable label: callee + ordinal among the same callee's sites in this function (no line numbers)"""
    same = [s for s, w in sites if w == what]
    same_sorted = sorted(set(same), key=lambda s: tuple((fn, b) for fn, b in s))
    return "%s#%d" % (what, same_sorted.index(site) + 1)


def check(ctx, F, rule, fns, whitelist=(), require_no_panic=True):
    """whitelist: set of (fn def, callee def) pairs allowed to discard the error (one named symbol each)."""
    n_sites = 0
    for f in fns:
        sites, paths, err = fallible_sites(F, f)
        if sites is None:
            ctx.unanalysable(rule, f["def"], err)
            continue
        for site, what in sites:
            label = site_label(f, site, what, sites)
            inst = "%s :: %s" % (f["def"], label)
            key = "%s|%s|%s" % (rule, f["def"], label)
            n_sites += 1
            try:
                I = absint.Interp(F, inline=modular_inline, fail_site=site)
                ps = I.run(f)
            except absint.Unanalysable as e:
                ctx.unanalysable(rule, inst, str(e))
                continue
            bad = []
            hit = 0
            for p in ps:
                if not any(s == site for s, _ in site_effects(p)):
                    continue
                hit += 1
                if p.status == 'panic':
                    if require_no_panic:
                        bad.append("a path panics after the failure")
                    continue
                if p.status != 'return':
                    continue
                if what.startswith(VALUE_FREE):
                    # a failed integer conversion carries no information beyond "failed": any error return reports it
                    if not error_position(p.ret):
                        bad.append("returns %s" % absint.term_str(p.ret)[:160])
                    continue
                if not carries_error(p.ret, ('err', site)):
                    bad.append("returns %s" % absint.term_str(p.ret)[:160])
            wl = (f["def"], what) in whitelist
            sitestr = ctx.site_of_sitetuple(F, site)
            if wl:
                ctx.ob(rule, inst, True, "whitelisted: the property allows this function to discard %s's error" % what,
                       site=sitestr, key=key, trivial=True)
                continue
            if hit == 0:
                ctx.ob(rule, inst, True, "site not reachable under failure (dead)", site=sitestr, key=key, trivial=True)
                continue
            ctx.ob(rule, inst, not bad,
                   "error of %s %s" % (what, "is returned by the enclosing call on every path" if not bad
                                       else "is lost: " + "; ".join(sorted(set(bad))[:3])),
                   site=sitestr, key=key)
    return n_sites


def banned_calls(ctx, F, rule, banned, fns, what):
    """who-may-call: none of `fns` calls a function whose declared or resolved def is in `banned`."""
    n = 0
    for f in fns:
        for b, t in mir.calls(f):
            n += 1
            d = mir.callee_decl(t)
            r = mir.callee_def(t)
            if d in banned or r in banned:
                ctx.ob(rule, "%s calls %s" % (f["def"], d), False, "%s: %s must not be called (%s)" % (f["def"], d, what),
                       site=ctx.site_of(F, f["def"], b), key="%s|%s|%s" % (rule, f["def"], d))
    return n


# ---- accumulating / discarding consumers ---------------------------------------------------------------------------

DISCARDING = ("std::iter::Iterator::count", "std::iter::Iterator::last", "std::iter::Iterator::for_each", "std::iter::Iterator::nth",
              "std::iter::Iterator::max", "std::iter::Iterator::min", "std::iter::Iterator::skip_while", "std::mem::drop")
RESULTISH = ("std::result::Result<", "std::option::Option<std::result::Result<")


def closure_types(F):
    """type string of a closure -> its function record"""
    out = {}
    for g in F.identity_fns():
        if g.get("kind") == "Closure" and len(g["locals"]) > 1:
            ty = g["locals"][1]["ty"]
            for pre in ("&mut ", "&"):
                if ty.startswith(pre):
                    ty = ty[len(pre):]
            out[ty] = g
    return out


def _arg_ty(a):
    return (a.get("p") or {}).get("ty") or a.get("ty") or ""


def check_accumulators(ctx, F, rule, fns):
    """(a) `fold` with a Result accumulator: the closure must hand an `Err` accumulator on (evaluated with acc := Err(e));
       (b) an iterator whose items are produced by a closure returning a Result must not be consumed by an adaptor that
           throws the items away (count, last, for_each, nth, max, min)."""
    import re
    ct = closure_types(F)
    n = 0
    for f in fns:
        for b, t in mir.calls(f):
            d = mir.callee_decl(t) or ""
            args = t.get("args", [])
            site = ctx.site_of(F, f["def"], b)
            if d == "std::iter::Iterator::fold" and len(args) == 3 and _arg_ty(args[1]).startswith(RESULTISH):
                n += 1
                g = ct.get(_arg_ty(args[2]))
                inst = "%s :: fold" % f["def"]
                key = "%s|fold|%s" % (rule, f["def"])
                if g is None:
                    ctx.unanalysable(rule, inst, "the folding function of a Result accumulator is not a closure of this crate")
                    continue
                try:
                    e0 = ('err', 'accumulator')
                    ps = absint.Interp(F, inline=modular_inline).run(g, args=[None, absint.ERR(e0), None])
                except absint.Unanalysable as e:
                    ctx.unanalysable(rule, inst, str(e))
                    continue
                bad = [absint.term_str(p.ret)[:100] for p in ps if p.status == 'return' and not carries_error(p.ret, e0)]
                bad += ["a path panics" for p in ps if p.status == 'panic']
                ctx.ob(rule, inst, not bad, "an Err accumulator is handed on by every path of the folding closure" if not bad else
                       "the folding closure drops a failed accumulator (an earlier iteration's error is lost): returns %s" % bad[:2],
                       site=site, key=key)
            elif d in ("std::iter::Iterator::flat_map", "std::iter::Iterator::filter_map") and len(args) == 2:
                # Result is IntoIterator (and `.ok()` an Option): flattening the Results of a fallible closure drops every Err
                g = ct.get(_arg_ty(args[1]))
                gty = g["locals"][0]["ty"] if g is not None else ""
                swallow = g is not None and (gty.startswith(RESULTISH) or (
                    d.endswith("filter_map") and gty.startswith("std::option::Option<") and any(
                        (mir.callee_decl(t2) or "").endswith("Result::<T, E>::ok") for _, t2 in mir.calls(g))))
                if swallow:
                    n += 1
                    ctx.ob(rule, "%s :: %s" % (f["def"], d.split("::")[-1]), False,
                           "%s over the Results of %s keeps the successes and silently drops every failure" % (d.split("::")[-1], g["def"]),
                           site=site, key="%s|%s|%s" % (rule, d.split("::")[-1], f["def"]))
            elif d == "std::iter::Iterator::flatten" and args:
                recv = _arg_ty(args[0])
                fall = [ct[m]["def"] for m in re.findall(r"\{closure@[^}]*\}", recv) if m in ct and ct[m]["locals"][0]["ty"].startswith(RESULTISH)]
                if fall:
                    n += 1
                    ctx.ob(rule, "%s :: flatten" % f["def"], False, "flatten over the Results of %s drops every failure" % ", ".join(fall),
                           site=site, key="%s|flatten|%s" % (rule, f["def"]))
            elif d in DISCARDING and args:
                recv = _arg_ty(args[0])
                fall = []
                for m in re.findall(r"\{closure@[^}]*\}", recv):
                    g = ct.get(m)
                    if g is not None and g["locals"][0]["ty"].startswith(RESULTISH):
                        fall.append(g["def"])
                if d == "std::mem::drop" and recv.startswith(RESULTISH):
                    fall.append("a Result value")
                if fall:
                    n += 1
                    ctx.ob(rule, "%s :: %s" % (f["def"], d.split("::")[-1]), False,
                           "%s discards the Results produced by %s: a failure is never reported" % (d, ", ".join(fall)), site=site,
                           key="%s|%s|%s" % (rule, d.split("::")[-1], f["def"]))
    return n
