"""E2 layouts: turn the effect tree of a record writer / reader into the layout grammar of spec/esri.json.

Layout = list of items:  "f64:<binding>" | "i32:<binding>" | ["rep", <count class>, [items]]
Count classes: "parts" (NumParts), "points" (NumPoints, also Σ part lengths).

Every classification is justified from terms (what a value is copied from, what a loop iterates, which
field bounds a repetition); anything that cannot be justified raises LayoutError (reported as
unanalysable, never guessed).
"""
from . import absint, affine
from .absint import is_agg, agg_field


class LayoutError(Exception):
    pass


SELF = ('T', ('param', 1))


def fields_of_path(proj):
    return [e[1] for e in proj if e[0] == 'f']


def box_binding(fs):
    """['bbox','min','x'] -> 'box.min.x'"""
    if len(fs) >= 3 and fs[-3] in ('bbox',) and fs[-2] in ('min', 'max') and fs[-1] in ('x', 'y', 'z', 'm'):
        return "box.%s.%s" % (fs[-2], fs[-1])
    return None


def strip_iter(it):
    it = affine.strip_sites(it)
    while it[0] in ('map', 'into_iter', 'clonediter'):
        it = it[1]
    return it


# ---------------------------------------------------------------------------------------------
# writer side

def part_iter_total(agg_):
    """the total point count carried by the part iterator, by role: its only field holding an i32 read from the source"""
    if not absint.is_agg(agg_):
        return None
    c = [v for k, v in agg_[4] if isinstance(v, tuple) and v and v[0] == 'ret']
    return c[0] if len(c) == 1 else None


def variant_const_table(F, fn_def):
    """a pure local function of one enum argument that returns an integer constant per variant -> {variant index: constant}"""
    from . import util
    g = util.local_fn(F, fn_def)
    if g is None or g.get("argc") != 1:
        return None
    try:
        ps = absint.Interp(F, summarise_pure=False).run(g)
    except absint.Unanalysable:
        return None
    tab = {}
    for p in ps:
        if p.status != 'return' or p.eff or p.ret is None or p.ret[0] != 'int':
            return None
        ds = [(t, v) for t, v in p.cons if t[0] == 'discr' and isinstance(v, int) and absint.contains(t, ('param', 1))]
        if len(ds) != 1 or ds[0][1] in tab:
            return None
        tab[ds[0][1]] = p.ret[1]
    return tab or None


class WriterLayout:
    def __init__(self, path, F=None):
        self.p = path
        self.F = F
        self.parts_coll = None      # canonical collection term of the parts (its len is written as NumParts)
        self.points_coll = None     # multipoint: collection whose len is written as NumPoints
        self.len_coll = None
        self.total_of = None
        self.notes = []
        self.offsets_ok = None
        self.patch_codes = None
        self.items = self.walk(path.eff, [])

    def value_binding(self, v, loops):
        v0 = v
        if v[0] == 'cast':
            v = v[1]
        if v[0] == 'load':
            root, proj = v[1]
            fs = fields_of_path(proj)
            if root == SELF:
                b = box_binding(fs)
                if b:
                    return b
                if len(fs) == 1 and fs[0] in ('x', 'y', 'z', 'm'):
                    return fs[0]
                raise LayoutError("value copied from self.%s" % ".".join(fs))
            if root[0] == 'T' and fs and fs[-1] in ('x', 'y', 'z', 'm') and len(fs) == 1:
                # coordinate of an element: must be the element of the innermost enclosing loop
                ptr = root[1]
                if not loops:
                    raise LayoutError("coordinate of an element written outside any loop")
                inner = loops[-1]
                if not any(isinstance(x, tuple) and x and x[0] in ('elem', 'elemref') and x[2] == inner[1] for x in absint.subterms(ptr)):
                    raise LayoutError("coordinate written in a loop is not taken from that loop's element")
                return fs[-1]
            raise LayoutError("value %s is not a plain field copy" % absint.term_str(v0))
        if v[0] == 'len':
            c = affine.canon_coll(v[1])
            cs = absint.term_str(c)
            # NumParts or NumPoints?  decided once the whole record is known (see resolve_len): a shape that also writes a
            # sum of part lengths counts its parts here; one that does not (multipoint) counts its points
            self.len_coll = c
            return 'LEN'
        if v[0] == 'sum':
            base = strip_iter(v[1])
            c = affine.canon_coll(base[1]) if base[0] == 'iter' else base
            body = v[2]
            if body[0] == 'cast':
                body = body[1]
            if body[0] != 'len':
                raise LayoutError("NumPoints is not a sum of part lengths: %s" % absint.term_str(v0))
            self.total_of = c
            return 'num_points'
        if v[0] == 'lv':
            return ('loopvar', v)
        if v[0] == 'int':
            return ('const', v[1])
        if v[0] in ('ret', 'app'):
            nm = (v[2] if v[0] == 'ret' else v[1])
            nm = nm.split('::')[-1] if isinstance(nm, str) else '?'
            if nm in ('x', 'y', 'z', 'm'):
                return nm
        if v[0] == 'app' and self.F is not None and len(v[2]) == 1 and \
                any(isinstance(x, tuple) and x and x[0] in ('elem', 'elemref') for x in absint.subterms(v[2][0])):
            # a per-variant constant computed by a pure local helper from the loop's element (patch kind code):
            # evaluate the helper as a table variant -> constant
            tab = variant_const_table(self.F, v[1])
            if tab is not None:
                self.patch_codes = sorted(tab.items())
                return 'part_type'
        raise LayoutError("value %s is computed, not copied from a field" % absint.term_str(v0)[:80])

    def walk(self, effs, loops):
        out = []
        for e in effs:
            if e[0] == 'io':
                if e[1] not in ('write', 'write_all'):
                    raise LayoutError("unexpected %s in a record writer" % e[1])
                ty, en = e[3].get('ty'), e[3].get('endian')
                if e[1] == 'write_all':
                    raise LayoutError("raw write_all of %s bytes" % e[3].get('width'))
                b = self.value_binding(e[4], loops)
                out.append({'k': 'prim', 'ty': ty, 'endian': en, 'bind': b, 'val': e[4], 'site': e[5]})
            elif e[0] == 'loop':
                info, bodies = e[2], e[3]
                if info.get('kind') != 'for':
                    raise LayoutError("loop that is not a for loop over an iterator")
                it = strip_iter(info['iter'])
                if it[0] != 'iter':
                    raise LayoutError("loop over %s" % absint.term_str(it)[:60])
                coll = affine.canon_coll(it[1])
                lp = ('loop', info['site'], coll, info)
                alts = [self.walk(b['eff'], loops + [lp]) for b in bodies]
                if not alts:
                    continue
                body = alts[0]
                if len(alts) > 1:
                    # alternatives must have the same shape; constant values may differ (patch kind codes)
                    shapes = set(tuple((i['k'], i.get('ty'), i.get('endian')) for i in a) for a in alts)
                    if len(shapes) != 1:
                        raise LayoutError("alternatives of a loop body emit different layouts")
                    consts = []
                    for a, b in zip(alts, bodies):
                        if len(a) == 1 and a[0]['k'] == 'prim' and isinstance(a[0]['bind'], tuple) and a[0]['bind'][0] == 'const':
                            var = None
                            for t, v in b['cons']:
                                if t[0] == 'discr' and isinstance(v, int) and 'elem' in absint.term_str(t[1])[:8]:
                                    var = v
                            consts.append((var, a[0]['bind'][1]))
                    if len(consts) == len(alts):
                        self.patch_codes = sorted(consts)
                        body = [dict(alts[0][0], bind='part_type')]
                    else:
                        raise LayoutError("loop body alternatives differ beyond a per-variant constant")
                out.append({'k': 'rep', 'coll': coll, 'items': body, 'info': info, 'bodies': bodies})
            elif e[0] in ('assert', 'consume', 'store'):
                continue
            elif e[0] == 'call':
                raise LayoutError("opaque call %s on the data path" % (e[2] or e[1]))
        return out

    def normalise(self):
        """-> layout in spec grammar"""
        return self._norm(self.items, None)

    def _norm(self, items, outer):
        out = []
        for it in items:
            if it['k'] == 'prim':
                b = it['bind']
                if isinstance(b, tuple) and b[0] == 'loopvar':
                    b = 'part_offset'
                    self.check_prefix_sum(it, outer)
                if isinstance(b, tuple):
                    raise LayoutError("constant %s written as data" % (b,))
                if b == 'LEN':
                    if self.total_of is not None:
                        self.parts_coll, b = self.len_coll, 'num_parts'
                    else:
                        self.points_coll, b = self.len_coll, 'num_points'
                out.append("%s:%s" % (it['ty'], b))
            else:
                coll = it['coll']
                inner = it['items']
                if len(inner) == 1 and inner[0]['k'] == 'rep':
                    # loop over parts whose body is a loop over the part's points: Σ lengths = NumPoints
                    sub = inner[0]
                    if not self.is_elem_of(sub['coll'], it):
                        raise LayoutError("nested loop does not iterate the outer loop's element")
                    if self.parts_coll is not None and coll != self.parts_coll:
                        raise LayoutError("points are emitted from %s but NumParts counts %s" % (absint.term_str(coll), absint.term_str(self.parts_coll)))
                    out.append(["rep", "points", self._norm(sub['items'], sub)])
                elif self.points_coll is not None and coll == self.points_coll:
                    out.append(["rep", "points", self._norm(inner, it)])
                elif self.parts_coll is not None and coll == self.parts_coll:
                    out.append(["rep", "parts", self._norm(inner, it)])
                else:
                    raise LayoutError("loop over %s, which is neither the counted parts nor the counted points" % absint.term_str(coll)[:60])
        return out

    def is_elem_of(self, coll, outer_item):
        uid = outer_item['info']['site']
        return any(isinstance(x, tuple) and x and x[0] in ('elem', 'elemref') for x in absint.subterms(coll))

    def check_prefix_sum(self, prim, loop_item):
        """the loop variable written starts at 0 and is increased by the length of the current part after the write"""
        ok = False
        if loop_item is not None:
            info = loop_item['info']
            lv = prim['val']
            if lv[0] == 'cast':
                lv = lv[1]
            entry = info['entry'].get(lv[2])
            paths = info['carried_paths'].get(lv[2])
            if entry == ('int', 0) and paths is not None:
                for b in loop_item['bodies']:
                    newv = b['mem'].get(paths)
                    if newv is not None and newv[0] == 'bin' and newv[1] == 'Add' and newv[2] == lv:
                        d = newv[3]
                        if d[0] == 'cast':
                            d = d[1]
                        if d[0] == 'len':
                            ok = True
        self.offsets_ok = ok if self.offsets_ok is None else (self.offsets_ok and ok)


# ---------------------------------------------------------------------------------------------
# reader side

NO_DATA_T = ('f64', '-1e39')


def unwrap_normaliser(v):
    """(value read, normaliser) — normaliser is False (raw), 'f64::max' (std, value first or second) or
    ('fn', def path, position of the value read) for a local two-argument function applied with NO_DATA"""
    if v[0] == 'f64max':
        if v[2] == NO_DATA_T:
            return v[1], 'f64::max'
        if v[1] == NO_DATA_T:
            return v[2], 'f64::max'
    if v[0] == 'f64min' and NO_DATA_T in (v[1], v[2]):
        return (v[1] if v[2] == NO_DATA_T else v[2]), 'f64::min'
    if v[0] == 'app' and len(v[2]) == 2 and NO_DATA_T in v[2]:
        pos = 0 if v[2][1] == NO_DATA_T else 1
        return v[2][pos], ('fn', v[1], pos)
    return v, False

class ReaderLayout:
    def __init__(self, path):
        self.p = path
        self.bind = {}        # ret term of a read -> binding
        self.count_role = {}  # ret term -> 'num_parts' / 'num_points'
        self.normalised = {}  # ret term of an m read -> True when passed through max(., NO_DATA)
        self.vec_count = {}   # location of a Vec filled in a loop -> count class
        self.notes = []
        self.collect_bindings()
        self.items = self.walk(path.eff, [])

    # where does each value read end up?
    def collect_bindings(self):
        p = self.p
        r = p.ret
        if is_agg(r, None, 'Ok'):
            r = agg_field(r, '0')
        self.scan_value(r, [])
        for e in absint.flat_effects(p.eff):
            if e[0] == 'push':
                self.scan_value(e[2], ['<elem>'])
                if e[2][0] == 'ret':
                    self.bind.setdefault(e[2], 'pushed')
            elif e[0] == 'store':
                fs = fields_of_path(e[1][1])
                v, norm = unwrap_normaliser(e[2])
                if v[0] == 'ret' and fs:
                    root = e[1][0]
                    if root[0] == 'T' and any(isinstance(x, tuple) and x and x[0] in ('elem', 'elemref') for x in absint.subterms(root[1])):
                        self.bind[v] = fs[-1]
                        self.normalised[v] = norm
                    elif box_binding(fs):
                        self.bind[v] = box_binding(fs)
                        self.normalised[v] = norm

    def scan_value(self, v, fs):
        if not isinstance(v, tuple) or not v:
            return
        if v[0] == 'ret':
            if fs and fs[0] == '<elem>' and len(fs) == 2:
                self.bind[v] = fs[1]
            else:
                b = box_binding(fs)
                if b:
                    self.bind[v] = b
                elif len(fs) == 1 and fs[0] in ('x', 'y', 'z', 'm'):
                    self.bind[v] = fs[0]
            return
        inner, norm = unwrap_normaliser(v)
        if norm:
            if inner[0] == 'ret':
                self.scan_value(inner, fs)
                self.normalised[inner] = norm
            return
        if is_agg(v):
            for k, x in v[4]:
                self.scan_value(x, fs + [k])
        elif v[0] == 'upd':
            self.scan_value(v[1], fs)
            for pr, x in v[2]:
                self.scan_value(x, fs + fields_of_path(pr))

    def count_of_range(self, it):
        """count class of a `for _ in 0..n` loop from its bound"""
        if not (is_agg(it) and it[1].startswith('std::ops::Range') and agg_field(it, 'start') == ('int', 0)):
            return None, None
        end = agg_field(it, 'end')
        # the count as read: through casts and the clamp of a negative count to 0 (`n.max(0) as usize`)
        for _ in range(4):
            if end[0] == 'cast':
                end = end[1]
            elif end[0] == 'imax' and ('int', 0) in (end[1], end[2]):
                end = end[1] if end[2] == ('int', 0) else end[2]
            else:
                break
        return end, 'range'

    def walk(self, effs, loops):
        out = []
        for e in effs:
            if e[0] == 'io':
                if e[1] != 'read':
                    raise LayoutError("unexpected %s in a record reader" % e[1])
                r = e[-1]
                out.append({'k': 'prim', 'ty': e[3]['ty'], 'endian': e[3]['endian'], 'ret': r, 'bind': self.bind.get(r), 'site': e[5]})
            elif e[0] == 'loop':
                info, bodies = e[2], e[3]
                alts = [self.walk(b['eff'], loops + [info]) for b in bodies]
                alts = [a for a in alts]
                if not alts:
                    continue
                shapes = set(tuple((i['k'], i.get('ty'), i.get('endian')) for i in a) for a in alts)
                if len(shapes) != 1:
                    raise LayoutError("alternatives of a reader loop consume different layouts")
                pushes = [x for b in bodies for x in b['eff'] if x[0] == 'push']
                out.append({'k': 'rep', 'info': info, 'items': alts[0], 'bodies': bodies, 'pushes': pushes})
            elif e[0] in ('assert', 'alloc', 'push', 'store', 'consume'):
                continue
            elif e[0] == 'call':
                raise LayoutError("opaque call %s on the data path" % (e[2] or e[1]))
        return out

    def normalise(self):
        # roles of the count fields: an i32 read whose value bounds a 0..n loop
        top = self.items
        self._assign_counts(top)
        return self._norm(top)

    def _assign_counts(self, items):
        prims = [i for i in items if i['k'] == 'prim' and i['ty'] == 'i32']
        self.count_prims = prims

    def _loop_class(self, it, outer=None):
        info = it['info']
        iter_t = info.get('iter')
        if iter_t is None:
            raise LayoutError("loop without a known iterator")
        base = iter_t
        while base[0] in ('map', 'into_iter'):
            base = base[1]
        if is_agg(base) and base[1].startswith('std::ops::Range'):
            if agg_field(base, 'start') != ('int', 0):
                raise LayoutError("range loop not starting at 0")
            end = agg_field(base, 'end')
            for _ in range(4):      # through casts and the clamp of a negative count to 0
                if end[0] == 'cast':
                    end = end[1]
                elif end[0] == 'imax' and ('int', 0) in (end[1], end[2]):
                    end = end[1] if end[2] == ('int', 0) else end[2]
                else:
                    break
            return ('bound', end)
        if is_agg(base) and not base[1].startswith('std::'):
            # local iterator struct (part index iterator): (start, end) pairs from an offsets array + a total
            return ('partiter', base)
        if base[0] == 'iter':
            return ('coll', base[1])
        if base[0] == 'zip':
            return ('coll', base[1])
        raise LayoutError("loop over %s" % absint.term_str(base)[:60])

    def _norm(self, items):
        out = []
        i32_seen = []
        for it in items:
            if it['k'] == 'prim':
                b = it['bind']
                if it['ty'] == 'i32' and b is None:
                    i32_seen.append(it)
                    b = ('count', len(i32_seen))
                out.append((it, b))
            else:
                out.append((it, None))
        # resolve loops
        res = []
        np_ret = nparts_ret = None
        # NumParts / NumPoints roles from use: bound of the offsets loop / total of the part iterator or bound of the point loop
        def has_prims(x):
            return any(i['k'] == 'prim' or has_prims(i) for i in x['items'])
        out = [(it, b) for it, b in out if it['k'] == 'prim' or has_prims(it)]
        for it, b in out:
            if it['k'] != 'rep':
                continue
            cls = self._loop_class(it)
            inner = it['items']
            reads_i32 = len(inner) == 1 and inner[0]['k'] == 'prim' and inner[0]['ty'] == 'i32'
            if cls[0] == 'bound' and cls[1][0] == 'ret':
                if reads_i32 and nparts_ret is None and any(p[2] == inner[0]['ret'] for p in it['pushes']):
                    nparts_ret = cls[1]
                    for p in it['pushes']:
                        self.vec_count[p[1]] = 'parts'
                elif reads_i32:
                    pass
                elif np_ret is None:
                    np_ret = cls[1]
            if cls[0] == 'partiter':
                tot = part_iter_total(cls[1])
                if tot is not None and tot[0] == 'ret':
                    np_ret = tot
        self.np_ret, self.nparts_ret = np_ret, nparts_ret
        for it, b in out:
            if it['k'] == 'prim':
                if isinstance(b, tuple):
                    r = it['ret']
                    if r == nparts_ret:
                        b = 'num_parts'
                    elif r == np_ret:
                        b = 'num_points'
                    else:
                        raise LayoutError("an i32 is read that is neither NumParts nor NumPoints nor stored")
                if b is None:
                    raise LayoutError("value read at %s is not stored anywhere in the result" % absint.site_str(it['site']))
                res.append("%s:%s" % (it['ty'], b))
                continue
            res.append(self._norm_loop(it))
        return res

    def _norm_loop(self, it):
        cls = self._loop_class(it)
        inner = it['items']
        if cls[0] == 'bound':
            end = cls[1]
            if end == self.nparts_ret:
                body = self._norm_body(inner, 'part')
                return ["rep", "parts", body]
            if end == self.np_ret:
                for p in it['pushes']:
                    self.vec_count[p[1]] = 'points'
                return ["rep", "points", self._norm_body(inner, 'point')]
            raise LayoutError("loop bounded by %s, which is not a count field read before" % absint.term_str(end)[:60])
        if cls[0] == 'partiter':
            agg_ = cls[1]
            # inner: one range loop of (end - start) points
            if not (len(inner) == 1 and inner[0]['k'] == 'rep'):
                raise LayoutError("part loop body is not a single loop over the part's points")
            sub = inner[0]
            scls = self._loop_class(sub)
            if scls[0] != 'bound' or not (scls[1][0] == 'bin' and scls[1][1] == 'Sub'):
                raise LayoutError("points of a part are not counted by end - start")
            self.part_iter = agg_
            self.part_len = scls[1]
            for p in it['pushes']:
                self.vec_count[p[1]] = 'points-by-part'
            return ["rep", "points", self._norm_body(sub['items'], 'point')]
        if cls[0] == 'coll':
            coll = cls[1]
            # iterating something filled earlier
            if len(inner) == 1 and inner[0]['k'] == 'rep':
                sub = inner[0]
                return ["rep", "points", self._norm_body(sub['items'], 'point')]
            return ["rep", "points", self._norm_body(inner, 'point')]
        raise LayoutError("unclassified loop")

    def _norm_body(self, items, what):
        out = []
        for it in items:
            if it['k'] != 'prim':
                raise LayoutError("unexpected nested loop")
            b = it['bind']
            if b == 'pushed' and it['ty'] == 'i32':
                b = 'part_offset' if what == 'part' else None
            if b is None and it['ty'] == 'i32' and what == 'part':
                b = 'part_type'
            if b is None:
                raise LayoutError("value read in a loop is not stored in the element")
            out.append("%s:%s" % (it['ty'], b))
        return out


# ---------------------------------------------------------------------------------------------
# shared drivers

def spec_variants(spec_layout):
    """(layout with the optional M block, layout without it)"""
    def go(l, m):
        out = []
        for x in l:
            if isinstance(x, dict):
                out += go(x['opt'], m) if m else []
            elif isinstance(x, list):
                out.append([x[0], x[1], go(x[2], m)])
            else:
                out.append(x)
        return out
    return go(spec_layout, True), go(spec_layout, False)


def has_optional(spec_layout):
    return any(isinstance(x, dict) for x in spec_layout)


_cache = {}


def writer_layouts(F, util):
    """name -> (fn, [(WriterLayout or None, normalised layout or error string)])"""
    key = ('w', id(F))
    if key in _cache:
        return _cache[key]
    out = {}
    for imp in F.trait_impls('record::WritableShape'):
        name = util.alias(imp['self_ty'])
        fw = {m['name']: F.fns.get(m['key']) for m in imp['methods']}.get('write_to')
        res = []
        if fw:
            try:
                ps, _ = util.run_fn(F, fw)
                for p in ps:
                    if not is_agg(p.ret, None, 'Ok'):
                        continue
                    try:
                        W = WriterLayout(p, F)
                        res.append((W, W.normalise()))
                    except LayoutError as e:
                        res.append((None, "unanalysable: %s" % e))
            except absint.Unanalysable as e:
                res.append((None, "unanalysable: %s" % e))
        out[name] = (fw, res)
    _cache[key] = out
    return out


def reader_layouts(F, util):
    """name -> (fn, [(path, ReaderLayout or None, layout or error)])"""
    key = ('r', id(F))
    if key in _cache:
        return _cache[key]
    out = {}
    for imp in F.trait_impls('record::ConcreteReadableShape'):
        name = util.alias(imp['self_ty'])
        fr = F.fns.get(imp['methods'][0]['key'])
        res = []
        if fr:
            try:
                ps, _ = util.run_fn(F, fr)
                for p in ps:
                    if p.status != 'return' or not is_agg(p.ret, None, 'Ok'):
                        res.append((p, None, None))
                        continue
                    try:
                        R = ReaderLayout(p)
                        res.append((p, R, R.normalise()))
                    except LayoutError as e:
                        res.append((p, None, "unanalysable: %s" % e))
            except absint.Unanalysable as e:
                res.append((None, None, "unanalysable: %s" % e))
        out[name] = (fr, res)
    _cache[key] = out
    return out


def prim_sig(path, direction):
    """[(ty, endian, width)] of the top-level primitives of a path (no loops expected)"""
    out = []
    for e in path.eff:
        if e[0] == 'io' and ((direction == 'write' and e[1] in ('write', 'write_all')) or (direction == 'read' and e[1] in ('read', 'read_exact'))):
            out.append((e[3].get('ty', 'bytes'), e[3].get('endian', '-'), e[3].get('width'), e))
        elif e[0] == 'loop':
            out.append(('loop', None, None, e))
    return out
