"""Thorough tier: everything the quick tier does, plus
  (a) the witness crate: compile_fail witnesses with compiling twins (E7), macro-form witnesses, controls;
  (b) crate-wide sweeps of the generic rules (error discipline, who-may-call, sinks) over every local body of both
      configurations instead of only the call graph of the property's roots;
  (d) the false-alarm self-test: every patch of equivalent/ that applies to the current tree must leave the quick check quiet;
  (c) the teeth check: every patch of mutants/ and seeded/ recorded for this property is applied to a scratch copy of
      /repo's *current* tree and the quick check must report it (a miss is a TEETH-MISS line and an evidence entry,
      never a property verdict).
"""
import json
import os
import shutil
import subprocess
import sys
import tempfile
from concurrent.futures import ThreadPoolExecutor

from . import absint, discipline, facts as factsmod, mir, taint, util, witness
from .report import BrokenChecker, Ctx

VERIF = factsmod.VERIF

CONTROLS = {
    "C12": ["short_write", "dropped_error", "fold_drops_error", "count_discards"],
    "C13": ["short_read", "ok_swallow", "fold_drops_error"],
    "C07": ["tainted_mul", "unwrap"],
    "C17": ["tainted_alloc"],
    "C20": ["reorder"],
    "C08": ["dropped_error"],
    "C06": ["ok_swallow"],
}
DOCTEST_PROPS = {"C09": ["WriteShapesConsumes"], "C15": ["IteratorBorrowsReader", "ReadConsumesReader"],
                 "C16": ["PolygonFieldsPrivate"], "C10": ["WriteShapesConsumes"]}


def patches_for(prop):
    out = []
    md = os.path.join(VERIF, "mutants")
    if os.path.isdir(md):
        for fn in sorted(os.listdir(md)):
            if fn.endswith(".diff") and fn.startswith(prop + "-"):
                out.append(("mutants/" + fn, os.path.join(md, fn), ()))
    sd = os.path.join(VERIF, "seeded")
    if os.path.isdir(sd):
        for d in sorted(os.listdir(sd)):
            mp = os.path.join(sd, d, "meta.json")
            pp = os.path.join(sd, d, "patch.diff")
            if not (os.path.exists(mp) and os.path.exists(pp)):
                continue
            try:
                meta = json.load(open(mp))
            except Exception:
                continue
            if meta.get("property") == prop or prop in meta.get("checks_reporting_it", []):
                out.append(("seeded/" + d, pp, tuple(meta.get("features", [])) +
                            (("declined",) if meta.get("accepted_limitation") and meta.get("property") == prop else ())))
    return out


def _one_teeth(prop, name, patch):
    scratch = tempfile.mkdtemp(prefix="shpteeth-")
    try:
        repo = os.path.join(scratch, "repo")
        shutil.copytree(factsmod.REPO, repo, ignore=shutil.ignore_patterns("target", ".git"))
        r = subprocess.run(["patch", "-p1", "-s", "-i", patch], cwd=repo, stdout=subprocess.PIPE, stderr=subprocess.STDOUT, text=True)
        if r.returncode != 0:
            return name, "skipped (does not apply to the current tree)", ""
        env = dict(os.environ, SHP_REPO=repo, SHP_OUT=os.path.join(scratch, "out"), VERIF_TIER="quick")
        r = subprocess.run([os.path.join(VERIF, "bin", "check"), prop, "--tier", "quick"], env=env, stdout=subprocess.PIPE,
                           stderr=subprocess.STDOUT, text=True)
        viol = [l for l in r.stdout.splitlines() if l.startswith("VIOLATION")]
        why = [l.strip() for l in r.stdout.splitlines() if l.startswith("  rule")][:2]
        if r.returncode == 1 and viol:
            return name, "caught", "; ".join(why)
        if r.returncode == 0:
            return name, "MISSED", ""
        return name, "broken (rc=%d)" % r.returncode, r.stdout[-200:]
    finally:
        shutil.rmtree(scratch, ignore_errors=True)


def teeth(ctx, prop):
    ps = patches_for(prop)
    res = []
    if not ps:
        ctx.teeth = {"applied": 0, "caught": 0, "missed": [], "skipped": []}
        return
    with ThreadPoolExecutor(max_workers=4) as ex:
        futs = [ex.submit(_one_teeth, prop, name, patch) for name, patch, feats in ps]
        for f in futs:
            res.append(f.result())
    caught = [n for n, v, w in res if v == "caught"]
    declined_names = set(name for name, patch, feats in ps if "declined" in feats)
    declined = [n for n, v, w in res if v == "MISSED" and n in declined_names]      # documented limits (DESIGN 13.14), still listed
    missed = [n for n, v, w in res if (v == "MISSED" or v.startswith("broken")) and n not in declined]
    skipped = [n for n, v, w in res if v.startswith("skipped")]
    for n in declined:
        print("TEETH-DECLINED property=%s patch=%s (a documented limit of the technique, see its meta.json)" % (prop, n))
    for n in missed:
        print("TEETH-MISS property=%s patch=%s (recorded in the evidence; not a property verdict)" % (prop, n))
    ctx.teeth = {"applied": len(res) - len(skipped), "caught": len(caught), "missed": missed, "declined": declined, "skipped": skipped,
                 "detail": {n: (v + (": " + w if w else ""))[:240] for n, v, w in res}}


def _one_quiet(prop, name, patch):
    scratch = tempfile.mkdtemp(prefix="shpquiet-")
    try:
        repo = os.path.join(scratch, "repo")
        shutil.copytree(factsmod.REPO, repo, ignore=shutil.ignore_patterns("target", ".git"))
        r = subprocess.run(["patch", "-p1", "-s", "-F0", "-i", patch], cwd=repo, stdout=subprocess.PIPE, stderr=subprocess.STDOUT, text=True)
        if r.returncode != 0:
            return name, "skipped (does not apply exactly to the current tree)", ""
        env = dict(os.environ, SHP_REPO=repo, SHP_OUT=os.path.join(scratch, "out"), VERIF_TIER="quick")
        r = subprocess.run([os.path.join(VERIF, "bin", "check"), prop, "--tier", "quick"], env=env, stdout=subprocess.PIPE,
                           stderr=subprocess.STDOUT, text=True)
        if r.returncode == 0:
            return name, "quiet", ""
        if r.returncode == 2:
            return name, "skipped (the refactored tree does not build in this configuration)", ""
        why = [l.strip() for l in r.stdout.splitlines() if l.startswith("  rule")][:2]
        return name, "ALARM", "; ".join(why)
    finally:
        shutil.rmtree(scratch, ignore_errors=True)


def quiet_selftest(ctx, prop):
    """false-alarm self-test: every recorded behaviour-preserving refactoring (equivalent/) that applies to the current tree is
    applied to a scratch copy and the quick check must stay quiet.  An alarm is printed as FALSE-ALARM-SELFTEST and recorded in the
    evidence; it is a statement about the checker, never a property verdict."""
    ed = os.path.join(VERIF, "equivalent")
    ps = []
    if os.path.isdir(ed):
        for d in sorted(os.listdir(ed)):
            pp = os.path.join(ed, d, "patch.diff")
            try:
                meta = json.load(open(os.path.join(ed, d, "meta.json")))
            except Exception:
                meta = {}
            if meta.get("accepted_limitation") or meta.get("superseded_by"):
                continue            # documented: reported as undecided (fail closed) / only applies to an older commit
            if os.path.exists(pp):
                ps.append((d, pp))
    res = []
    with ThreadPoolExecutor(max_workers=4) as ex:
        for f in [ex.submit(_one_quiet, prop, n, pp) for n, pp in ps]:
            res.append(f.result())
    alarms = [(n, w) for n, v, w in res if v == "ALARM"]
    for n, w in alarms:
        print("FALSE-ALARM-SELFTEST property=%s refactoring=%s %s (recorded in the evidence; not a property verdict)" % (prop, n, w[:160]))
    ctx.extra["equivalence_selftest"] = {"applied": sum(1 for n, v, w in res if v in ("quiet", "ALARM")),
                                         "quiet": sum(1 for n, v, w in res if v == "quiet"),
                                         "alarms": [{"refactoring": n, "report": w[:240]} for n, w in alarms],
                                         "skipped": [n for n, v, w in res if v.startswith("skipped")]}


def sweeps(ctx, prop):
    """crate-wide versions of the generic rules, both configurations"""
    if prop in ("C12", "C13"):
        rule = prop + ".sweep"
        ctx.rule(rule, "crate-wide sweep (thorough): the error discipline of %s evaluated on every local function of both "
                       "configurations, not only on the call graph of the property's roots" % prop, floor=100)
        for cfg in ("default", "geo"):
            F = ctx.facts(cfg)
            fns = [f for f in F.identity_fns() if f["kind"] != "Closure"]
            wl = set()
            for imp in F.trait_impls("std::ops::Drop"):
                if imp["self_ty"].startswith("writer::ShapeWriter"):
                    wl.add((imp["methods"][0]["def"], "writer::ShapeWriter::<T>::finalize"))
            sub = _Prefixed(ctx, rule, cfg)
            discipline.check(sub, F, rule, fns, whitelist=wl)
    if prop != "C20":
        geo_sweep(ctx, prop)


class _GeoCtx(Ctx):
    """a context whose `default` facts are those of the crate built with the optional features: the property's own rules are
    evaluated a second time on what that build compiles (cfg(feature) items included)"""

    def facts(self, config="default"):
        return Ctx.facts(self, "geo")


def geo_sweep(ctx, prop):
    import importlib
    rule = prop + ".geo"
    sub = _GeoCtx(prop, "quick")
    sub.is_sub = True                   # no delegation inside: the delegated rules are swept under their own property
    try:
        importlib.import_module("sa.rules." + prop).run(sub)
    except BrokenChecker:
        raise
    except Exception as e:
        sub.unanalysable(prop + ".engine", "rule evaluation", "internal error while analysing the geo build: %r" % (e,))
    own = set(o["rule"] for o in sub.obs)
    n = len([o for o in ctx.obs if o["rule"] in own])          # what the default build gave for the same rules
    ctx.rule(rule, "build-configuration sweep (thorough): every rule of %s evaluated again on the crate built with "
                   "--features geo-types,geo-traits (what cfg(feature) adds to the functions the rules anchor in is analysed too); "
                   "keys are those of the base rules, so a violation is suppressed or reported exactly as in the default build" % prop,
             floor=max(1, n * 9 // 10))
    ctx.units.update(sub.units)
    for o in sub.obs:
        ctx.ob(rule, "[geo] %s: %s" % (o["rule"], o["instance"]), o["ok"], o["why"], site=o["site"], key=o["key"],
               trivial=o.get("trivial", False))


class _Prefixed:
    """forwards obligations under a sweep rule, tagging instances with the configuration; keys stay those of the base rule
    so that a violation found by the sweep is suppressed by / reported under the same key as the quick rule"""

    def __init__(self, ctx, rule, cfg):
        self.ctx, self.rule, self.cfg = ctx, rule, cfg

    def ob(self, rule, instance, ok, why="", site=None, key=None, **kw):
        base = self.rule.split(".")[0] + ".errs"
        if key:
            key = key.replace(self.rule, base, 1)
        self.ctx.ob(self.rule, "[%s] %s" % (self.cfg, instance), ok, why, site=site, key=key, **kw)

    def unanalysable(self, rule, what, why):
        self.ctx.unanalysable(self.rule, "[%s] %s" % (self.cfg, what), why)

    def site_of(self, *a, **k):
        return self.ctx.site_of(*a, **k)

    def site_of_sitetuple(self, *a, **k):
        return self.ctx.site_of_sitetuple(*a, **k)


def run(ctx, prop):
    # (a) witness crate
    if prop in CONTROLS:
        flagged = witness.controls(CONTROLS[prop])      # raises BrokenChecker when a control is not flagged
        ctx.extra["controls_flagged"] = flagged
    if prop in DOCTEST_PROPS:
        passed, failed, names = witness.doctests()
        ctx.rule(prop + ".witness", "compile_fail witnesses (facts the borrow checker / privacy already enforce and the typestate "
                                    "engine relies on) fail to compile with the expected error code, and their compiling twins compile",
                 floor=len(DOCTEST_PROPS[prop]))
        if failed < 0:
            raise BrokenChecker("witness doctests did not run: %s" % names)
        got = {}
        for nm, cf, res in names:
            got.setdefault(nm, []).append((bool(cf), res))
        for w in DOCTEST_PROPS[prop]:
            rs = got.get(w, [])
            cf_ok = any(c and r == "ok" for c, r in rs)
            twin_ok = any((not c) and r == "ok" for c, r in rs)
            ctx.ob(prop + ".witness", w, cf_ok and twin_ok, "compile_fail witness %s, compiling twin %s" % (
                "rejected by rustc as expected" if cf_ok else "NOT rejected", "compiles" if twin_ok else "does NOT compile"),
                key="%s.witness|%s" % (prop, w))
    # (b) sweeps
    sweeps(ctx, prop)
    # (c) teeth
    teeth(ctx, prop)
    # (d) false-alarm self-test over the recorded behaviour-preserving refactorings
    quiet_selftest(ctx, prop)
