"""MIR helpers over the JSON emitted by shpfacts: printing, CFG, dominators, loops."""


# ---------------------------------------------------------------------------------------------
# printing (diagnostics only)

def place_str(p):
    s = "_%d" % p["l"]
    for e in p["proj"]:
        k = e["k"]
        if k == "deref":
            s = "(*%s)" % s
        elif k == "field":
            s = "%s.%s" % (s, e["name"])
        elif k == "index":
            s = "%s[_%d]" % (s, e["l"])
        elif k == "cidx":
            s = "%s[%s%d]" % (s, "-" if e["from_end"] else "", e["off"])
        elif k == "subslice":
            s = "%s[%d..%s%d]" % (s, e["from"], "-" if e["from_end"] else "", e["to"])
        elif k == "downcast":
            s = "(%s as %s)" % (s, e["v"])
        else:
            s = "%s.<%s>" % (s, k)
    return s


def op_str(o):
    k = o["k"]
    if k in ("copy", "move"):
        return ("move " if k == "move" else "") + place_str(o["p"])
    if k == "const":
        for f in ("int", "f64", "bool", "str"):
            if f in o:
                return "const %r" % (o[f],)
        if "fn" in o:
            return "fn %s" % o["fn"]["path"]
        if "closure" in o:
            return "closure %s" % o["closure"]
        if "uneval" in o:
            return "const? %s" % o["uneval"]
        return "const<%s>" % o["ty"]
    return k


def rv_str(rv):
    k = rv["k"]
    if k == "use":
        return op_str(rv["a"])
    if k == "ref":
        return "&%s%s" % ("mut " if rv["mut"] else "", place_str(rv["p"]))
    if k == "bin":
        return "%s(%s, %s)" % (rv["op"], op_str(rv["a"]), op_str(rv["b"]))
    if k == "un":
        return "%s(%s)" % (rv["op"], op_str(rv["a"]))
    if k == "cast":
        return "%s as %s [%s]" % (op_str(rv["a"]), rv["to"], rv["ck"])
    if k == "discr":
        return "discriminant(%s)" % place_str(rv["p"])
    if k == "agg":
        ak = rv["ak"]
        ops = ", ".join(op_str(x) for x in rv["ops"])
        if ak == "adt":
            return "%s::%s{%s}" % (rv["adt"], rv["variant"], ops)
        if ak == "closure":
            return "closure[%s](%s)" % (rv["closure"], ops)
        return "%s(%s)" % (ak, ops)
    if k == "repeat":
        return "[%s; %s]" % (op_str(rv["a"]), rv["count"])
    if k == "rawptr":
        return "&raw %s" % place_str(rv["p"])
    return k


def term_str(t):
    k = t["k"]
    if k == "goto":
        return "goto bb%d" % t["target"]
    if k == "switch":
        return "switchInt(%s) -> [%s, otherwise: bb%d]" % (
            op_str(t["discr"]), ", ".join("%s: bb%d" % (v, b) for v, b in t["targets"]), t["otherwise"])
    if k == "call":
        fn = t["fn"]["path"] if "fn" in t else "<indirect %s>" % op_str(t["indirect"])
        if "fn" in t and t["fn"].get("resolved"):
            fn = t["fn"]["resolved"]["key"]
        return "%s = %s(%s) -> %s" % (
            place_str(t["dest"]), fn, ", ".join(op_str(a) for a in t["args"]),
            "bb%d" % t["target"] if t["target"] is not None else "!")
    if k == "assert":
        return "assert(%s%s, %s) -> bb%d" % ("" if t["expected"] else "!", op_str(t["cond"]), t["msg"], t["target"])
    if k == "drop":
        return "drop(%s) -> bb%d" % (place_str(t["p"]), t["target"])
    return k


def dump(f, out=None):
    lines = ["fn %s   [%s:%d]" % (f["key"], f["file"], f["line"])]
    for i, l in enumerate(f["locals"]):
        lines.append("  let _%d: %s%s" % (i, l["ty"], "  // " + l["name"] if "name" in l else ""))
    for i, b in enumerate(f["blocks"]):
        lines.append("  bb%d%s:" % (i, " (cleanup)" if b["cleanup"] else ""))
        for s in b["stmts"]:
            if s["k"] == "assign":
                lines.append("    %s = %s" % (place_str(s["p"]), rv_str(s["rv"])))
            else:
                lines.append("    %s" % s["k"])
        lines.append("    %s" % term_str(b["term"]))
    txt = "\n".join(lines)
    if out:
        out.write(txt + "\n")
    return txt


# ---------------------------------------------------------------------------------------------
# CFG

def succs(f, i, cleanup=False):
    """Successors on normal (non-unwind) edges."""
    t = f["blocks"][i]["term"]
    k = t["k"]
    if k == "goto" or k == "drop" or k == "assert":
        return [t["target"]]
    if k == "switch":
        out = []
        for _, b in t["targets"]:
            if b not in out:
                out.append(b)
        if t["otherwise"] not in out:
            out.append(t["otherwise"])
        return out
    if k == "call":
        return [t["target"]] if t["target"] is not None else []
    return []


def reachable_blocks(f):
    seen = set()
    st = [0]
    while st:
        b = st.pop()
        if b in seen:
            continue
        seen.add(b)
        st.extend(succs(f, b))
    return seen


def preds(f):
    p = {i: [] for i in range(len(f["blocks"]))}
    for i in reachable_blocks(f):
        for s in succs(f, i):
            p[s].append(i)
    return p


def rpo(f):
    seen = set()
    order = []

    def dfs(b):
        stack = [(b, iter(succs(f, b)))]
        seen.add(b)
        while stack:
            n, it = stack[-1]
            adv = False
            for s in it:
                if s not in seen:
                    seen.add(s)
                    stack.append((s, iter(succs(f, s))))
                    adv = True
                    break
            if not adv:
                order.append(n)
                stack.pop()
    dfs(0)
    order.reverse()
    return order


def dominators(f):
    """Immediate dominators (Cooper–Harvey–Kennedy)."""
    order = rpo(f)
    idx = {b: i for i, b in enumerate(order)}
    pr = preds(f)
    idom = {order[0]: order[0]}
    changed = True
    while changed:
        changed = False
        for b in order[1:]:
            ps = [p for p in pr[b] if p in idom]
            if not ps:
                continue
            new = ps[0]
            for p in ps[1:]:
                a, c = p, new
                while a != c:
                    while idx[a] > idx[c]:
                        a = idom[a]
                    while idx[c] > idx[a]:
                        c = idom[c]
                new = a
            if idom.get(b) != new:
                idom[b] = new
                changed = True
    return idom


def dominates(idom, a, b):
    """a dominates b"""
    while True:
        if a == b:
            return True
        nb = idom.get(b)
        if nb is None or nb == b:
            return False
        b = nb


def back_edges(f):
    idom = dominators(f)
    out = []
    for b in idom:
        for s in succs(f, b):
            if s in idom and dominates(idom, s, b):
                out.append((b, s))
    return out


def natural_loops(f):
    """header -> set of blocks"""
    pr = preds(f)
    loops = {}
    for (tail, head) in back_edges(f):
        body = loops.setdefault(head, {head})
        st = [tail]
        while st:
            n = st.pop()
            if n in body:
                continue
            body.add(n)
            st.extend(pr[n])
    return loops


def return_blocks(f):
    return [i for i in reachable_blocks(f) if f["blocks"][i]["term"]["k"] == "return"]


def calls(f):
    """yield (block index, terminator) for every call terminator on non-cleanup blocks"""
    for i, b in enumerate(f["blocks"]):
        if b["cleanup"]:
            continue
        if b["term"]["k"] == "call":
            yield i, b["term"]


def callee_def(t):
    """Best def path for a call terminator: resolved def when available, else declared def."""
    fn = t.get("fn")
    if not fn:
        return None
    r = fn.get("resolved")
    if r:
        return r["def"]
    return fn["def"]


def callee_decl(t):
    fn = t.get("fn")
    return fn["def"] if fn else None


def callee_key(t):
    fn = t.get("fn")
    if not fn:
        return None
    r = fn.get("resolved")
    if r:
        return r["key"]
    return None
