"""C07 — reading arbitrary bytes never panics, overflows or runs forever (E5 taint + intervals, E3 progress)."""
from .. import absint, mir, taint, util
from ..absint import is_agg, agg_field

SELF = ('T', ('param', 1))


def param_types(f):
    out = {}
    for i in range(1, f["argc"] + 1):
        ty = f["locals"][i]["ty"]
        if ty in taint.RANGES:
            out[i] = ty
    return out


def reader_roots(F):
    """[(fn record, inline policy, label)]"""
    roots = []
    seen = set()

    def add(f, pol=None):
        if f and f["key"] not in seen:
            seen.add(f["key"])
            roots.append((f, pol))
    for imp in F.trait_impls("record::ConcreteReadableShape"):
        for m in imp["methods"]:
            add(F.fns.get(m["key"]))
    no_content = lambda g, t: "read_shape_content" not in g["def"]
    for imp in F.trait_impls("record::ReadableShape"):
        for m in imp["methods"]:
            add(F.fns.get(m["key"]), no_content)
    # iterator types handed to the user: std adaptors (collect, zip, ...) may call any of their methods.
    # Private iterator types are only reached through the call graph (inlined where they are used).
    for imp in F.trait_impls("std::iter::Iterator"):
        adt = F.adts.get(imp.get("self_adt", ""))
        if adt and adt.get("vis") == "Public" and imp["self_ty"].startswith("reader::"):
            for m in imp["methods"]:
                add(F.fns.get(m["key"]))
    api = util.api_roots(F, ("reader::ShapeReader", "reader::Reader"), free_prefixes=("reader::read",))
    for f in api:
        add(f)
    add(F.identity("header::Header::read_from"))
    return roots


def collect_sinks(ctx, F, rule_unanalysable):
    sinks = {}
    nroots = 0
    npaths = 0
    for f, pol in reader_roots(F):
        nroots += 1
        try:
            I = absint.Interp(F, inline=pol)
            ps = I.run(f)
        except absint.Unanalysable as e:
            ctx.unanalysable(rule_unanalysable, f["def"], str(e))
            continue
        pt = param_types(f)
        for p in ps:
            npaths += 1
            for s in taint.sinks_of_path(p, pt, F):
                k = s.key()
                cur = sinks.get(k)
                if cur is None or (s.hazard and not cur.hazard):
                    sinks[k] = s
    return sinks, nroots, npaths


RULE_OF = {'arith': 'C07.arith', 'index': 'C07.arith', 'div': 'C07.arith', 'panic': 'C07.panics', 'unwrap': 'C07.panics',
           'alloc': 'C07.panics'}


def run(ctx):
    F = ctx.facts("default")
    ctx.rule("C07.arith", "every checked arithmetic operation, index and division on the reader call graph whose operand derives "
                          "from the input (read primitive, parameter, reader-side field) is shown in range by interval analysis under "
                          "the path's guards; one instance per (function, operation, operand role)", floor=25)
    ctx.rule("C07.panics", "inventory of the other panic-capable sites reachable from the reader API (panic!/assert!/debug_assert!, "
                           "unwrap/expect on unknown values, allocation sized by a count that may be negative before its cast to usize): "
                           "each must be unreachable under the path's guards", floor=5)
    ctx.rule("C07.progress", "every path of ShapeIterator::next / ShapeRecordIterator::next that yields an item strictly advances a "
                             "well-founded measure (consumes an index entry, or adds a provably positive amount to the position counter) "
                             "and every loop on a reader path is over an in-memory collection or contains a read whose failure leaves it", floor=4)
    ctx.assumptions += ["64-bit usize", "panics inside dbase and stack depth are not decided", "dev profile: overflow checks and debug assertions on"]
    sinks, nroots, npaths = collect_sinks(ctx, F, "C07.arith")
    ctx.extra["reader_roots"] = nroots
    ctx.extra["abstract_paths"] = npaths
    for k, s in sorted(sinks.items()):
        rule = RULE_OF[s.kind]
        if s.kind == 'alloc':
            # the C07 side of an allocation: a negative count turning into a capacity-overflow panic
            neg = "negative count" in s.detail
            ctx.ob(rule, "%s :: %s" % (s.fn, s.role), not neg,
                   "allocation %s: %s" % (s.role, s.detail if neg else "count cannot be negative before the cast"),
                   site=ctx.site_of_sitetuple(F, s.site), key="C07.panics|%s|%s|negative-count" % (s.fn, s.op))
            continue
        ok = not (s.hazard and s.tainted)
        ctx.ob(rule, "%s :: %s" % (s.fn, s.role), ok,
               ("%s %s can leave its range / fail: %s" % (s.op, s.role, s.detail)) if not ok else "in range: %s" % s.detail,
               site=ctx.site_of_sitetuple(F, s.site), key="%s|%s|%s|%s" % (rule, s.fn, s.op, s.keyrole or s.role))
    progress(ctx, F)


_READS = {}


def performs_read(F, t):
    """the call reads from the source and can fail: a byteorder / read_exact primitive, or a local function returning a Result
    that reaches one (through its own calls, closures and fn items)"""
    d = mir.callee_decl(t) or ""
    if d.startswith("byteorder::ReadBytesExt::") or d == "std::io::Read::read_exact":
        return True
    if not (t.get("dest") or {}).get("ty", "").startswith("std::result::Result<"):
        return False
    g = util.local_fn(F, mir.callee_def(t) or d)
    if g is None:
        return False
    k = g["def"]
    if k not in _READS:
        fns = [g] + [util.local_fn(F, x) for x in util.reachable_defs(F, g, depth=5)]
        _READS[k] = any(h is not None and any((mir.callee_decl(t2) or "").startswith("byteorder::ReadBytesExt::") or
                                              mir.callee_decl(t2) == "std::io::Read::read_exact" for _, t2 in mir.calls(h)) for h in fns)
    return _READS[k]


def reaches_read(F, g):
    k = g["def"]
    if k not in _READS:
        fns = [g] + [util.local_fn(F, x) for x in util.reachable_defs(F, g, depth=5)]
        _READS[k] = any(h is not None and any((mir.callee_decl(t2) or "").startswith("byteorder::ReadBytesExt::") or
                                              mir.callee_decl(t2) == "std::io::Read::read_exact" for _, t2 in mir.calls(h)) for h in fns)
    return _READS[k]


def callbacks_read(F, helper):
    """a higher-order helper calls back into a function it was handed: at every call site of the helper in this crate, some
    function item / closure among the arguments reads from the source"""
    sites = 0
    for h in F.identity_fns():
        if h.get("krate") != F.crate:
            continue
        for b, t in mir.calls(h):
            d = mir.callee_def(t) or ""
            if d.split("::<")[0] != helper["def"] and mir.callee_decl(t) != helper["def"]:
                continue
            sites += 1
            cbs = []
            for r in util.fn_refs({"blocks": [{"cleanup": False, "args": t.get("args", [])}]}):
                g = util.local_fn(F, r)
                if g is not None:
                    cbs.append(g)
            # closures are built into a local before the call: look at the closures of the calling function as well
            cbs += [c for c in F.identity_fns() if c["def"].startswith(h["def"].split("::{closure")[0] + "::{closure")]
            if not any(reaches_read(F, g) for g in cbs):
                return False
    return sites > 0


def counter_and_limit(ps):
    """the position counter and its limit: the two fields of self compared on the index-less `None` path"""
    counter = limit = None
    for p in ps:
        if p.status == 'return' and is_agg(p.ret, None, 'None'):
            for t, v in p.cons:
                if t[0] == 'bin' and t[1] in ('Lt', 'Le') and all(
                        x[0] == 'load' and x[1][0] == SELF and len(x[1][1]) == 1 for x in (t[2], t[3])):
                    # canonical atoms: `counter >= limit` is Le(limit, counter); `counter < limit` is Lt(counter, limit)
                    a, b = t[2][1], t[3][1]
                    counter, limit = (a, b) if t[1] == 'Lt' else (b, a)
    return counter, limit


def progress(ctx, F):
    from .C14 import iterator_next, index_field
    f = iterator_next(F)
    if not f:
        ctx.missing("C07.progress", "<ShapeIterator as Iterator>::next")
        return
    idxf = index_field(F)
    site = ctx.site_of(F, f["def"])
    # run with the record reader failing / succeeding: fork fallible calls
    I = absint.Interp(F, fork_fallible=True)
    ps = I.run(f)
    counter, limit = counter_and_limit(ps)
    if counter is None:
        ctx.missing("C07.progress", "position counter / limit comparison guarding the index-less iteration")
        return
    n = 0
    for p in ps:
        if p.status != 'return' or not is_agg(p.ret, None, 'Some'):
            continue
        n += 1
        item = agg_field(p.ret, '0')
        kind = 'Ok item' if is_agg(item, None, 'Ok') else 'Err item'
        idx_state = 'unknown'
        for t, v in p.cons:
            if t == ('discr', ('load', (SELF, (('f', idxf),)))):
                idx_state = 'with index' if v == 1 else 'without index'
        consumed = any(isinstance(s, tuple) and s and s[0] == 'next' and idxf in absint.term_str(s[1])
                       for t, v in p.cons for s in absint.subterms(t))
        adv = False
        amount = ""
        for e in p.eff:
            if e[0] == 'store' and e[1] == counter:
                iv = taint.Intervals(p.cons)
                old = ('load', e[1])
                v = e[2]
                if v == ('load', limit) or (v[0] == 'int' and v[1] >= 2 ** 64 - 1):
                    adv = True
                    amount = "counter := %s (the next call ends the iteration)" % ("limit" if v[0] == 'load' else "usize::MAX, at or above any limit")
                # v = old + delta with delta provably > 0 (a saturating sum that reaches usize::MAX is >= any limit)
                if v[0] in ('bin', 'sat') and v[1] == 'Add':
                    terms = []
                    st = [v]
                    while st:
                        x = st.pop()
                        if x[0] in ('bin', 'sat') and x[1] == 'Add':
                            st += [x[2], x[3]]
                        else:
                            terms.append(x)
                    if old in terms:
                        rest = [x for x in terms if x != old]
                        lo = sum(iv.of(x, 'usize')[0] for x in rest)
                        if lo > 0:
                            adv = True
                            amount = "counter += at least %d" % lo
        ok = consumed or adv
        why = "consumes an index entry" if consumed else (amount if adv else
              "neither consumes an index entry nor advances the position counter: the same call repeats forever (an endless stream of items)")
        ctx.ob("C07.progress", "next: %s, %s" % (kind, idx_state), ok, why, site=site,
               key="C07.progress|ShapeIterator::next|%s|%s" % (kind, idx_state))
    if n == 0:
        ctx.ob("C07.progress", "item paths", False, "no item-yielding path found", site=site)
    # loops on the reader graph: over collections, or containing a read primitive
    roots, g = util.reader_graph(F)
    nl = 0
    for fn in util.generic_only(F, g.values()):
        loops = mir.natural_loops(fn)
        for h, blocks in sorted(loops.items()):
            nl += 1
            ht = fn["blocks"][h]["term"]
            over_iter = ht["k"] == "call" and mir.callee_decl(ht) == "std::iter::Iterator::next"
            it_ty = ht["args"][0]["p"]["ty"] if over_iter and ht["args"][0]["k"] in ("copy", "move") else ""
            in_memory = any(x in it_ty for x in ("std::slice::Iter", "std::vec::IntoIter", "std::iter::Map", "std::iter::Zip", "std::slice::Windows"))
            read_blocks = set()
            for b in blocks:
                t = fn["blocks"][b]["term"]
                if t["k"] == "call" and performs_read(F, t):
                    read_blocks.add(b)
                elif t["k"] == "call" and (mir.callee_decl(t) or "") in ("std::ops::FnMut::call_mut", "std::ops::Fn::call", "std::ops::FnOnce::call_once"):
                    # a callback of a higher-order helper: it reads when it does in every instantiation of the helper
                    if callbacks_read(F, fn):
                        read_blocks.add(b)
            has_read = bool(read_blocks)
            # every cycle through the header passes a fallible read: without the reading blocks the header cannot reach itself
            rest = set(blocks) - read_blocks
            every_cycle_reads = False
            if has_read and h in rest:
                seen_, todo_ = set(), [x for x in mir.succs(fn, h) if x in rest]
                while todo_:
                    x = todo_.pop()
                    if x in seen_:
                        continue
                    seen_.add(x)
                    todo_ += [y for y in mir.succs(fn, x) if y in rest or y == h]
                every_cycle_reads = h not in seen_
            elif has_read:
                every_cycle_reads = True
            ok = (over_iter and (in_memory or has_read)) or every_cycle_reads
            what = it_ty or ("a counter / condition" if not over_iter else "an unknown iterator")
            ctx.ob("C07.progress", "loop in %s" % fn["def"], ok,
                   "iterates %s%s" % (what, ", every iteration performs a fallible read (bounded by the input length)" if (has_read and (over_iter or every_cycle_reads))
                                      else (", some cycle through the loop reads nothing" if has_read else "")),
                   site=ctx.site_of(F, fn["def"], h), key="C07.progress|loop|%s|%s" % (fn["def"], it_ty[:60]))
    ctx.extra["reader_loops"] = nl
