"""C20 continued: dispatch, coords, order, nest (config geo)."""
from .. import absint, mir, util
from ..absint import is_agg, agg_field
from .C20 import REORDER, SELF

FAMILY_GEOM = {"point": "Point", "polyline": "MultiLineString", "polygon": "MultiPolygon", "multipoint": "MultiPoint",
               "multipatch": "MultiPolygon"}
GEOM_SHAPE = {"Point": "Point", "Line": "Polyline", "LineString": "Polyline", "Polygon": "Polygon", "MultiPoint": "Multipoint",
              "MultiLineString": "Polyline", "MultiPolygon": "Polygon"}


def find_impl(F, trait, self_ty_sub, from_sub):
    for i in F.impls:
        if i.get("trait") == trait and self_ty_sub in i["self_ty"] and from_sub in i["trait_args"][1]:
            return F.fns.get(i["methods"][0]["key"]), i
    return None, None


def src_field(t):
    """which coordinate a term reads: x / y / z / m"""
    if t[0] in ('load', 'proj'):
        pr = t[1][1] if t[0] == 'load' else t[2]
        fs = [e[1] for e in pr if e[0] == 'f']
        return fs[-1] if fs else None
    if t[0] == 'ret' and isinstance(t[2], str):
        return t[2].split('::')[-1]
    return None


def run(ctx, F):
    sp = util.spec()
    fam = {s["name"]: s["family"] for s in sp["shape_types"]}
    # --- Shape -> Geometry ----------------------------------------------------------------------
    f, _ = find_impl(F, "std::convert::TryFrom", "geo_types::Geometry", "record::Shape")
    if not f:
        ctx.missing("C20.dispatch", "TryFrom<Shape> for geo_types::Geometry")
    else:
        ps, _ = util.run_fn(F, f, inline=lambda g, t: False)
        adt = F.adts["record::Shape"]
        names = {v["vi"]: v["name"] for v in adt["variants"]}
        rows, (excl, dflt) = util.enum_table(ps, ('discr', ('param', 1)))
        for vi, name in sorted(names.items()):
            pl = rows.get(vi, [])
            family = fam.get(name)
            ok = bool(pl)
            desc = []
            for p in pl:
                if p.status != 'return':
                    ok = False
                    desc.append("panics")
                    continue
                if family == "null":
                    good = is_agg(p.ret, None, 'Err')
                    desc.append("refused with Err" if good else absint.term_str(p.ret)[:60])
                    ok = ok and good
                    continue
                want = FAMILY_GEOM[family]
                calls = [e for e in p.eff if e[0] == 'call']
                payload = ('proj', ('param', 1), (('v', name), ('f', '0')))
                conv = [e for e in calls if e[3] and e[3][0] == payload]
                if family == "multipatch":
                    # result of the fallible conversion mapped into Geometry::MultiPolygon
                    good = bool(conv) and (absint.contains(p.ret, conv[0][-1])) and 'MultiPolygon' in absint.term_str(p.ret)
                    desc.append("try_from(multipatch) mapped to MultiPolygon" if good else absint.term_str(p.ret)[:80])
                else:
                    r = agg_field(p.ret, '0') if is_agg(p.ret, None, 'Ok') else None
                    # the payload converted by exactly one From/Into step, spelled `T::from(x)` (a call) or `x.into()` (the blanket impl)
                    good = r is not None and is_agg(r, "geo_types::Geometry", want) and (
                        (bool(conv) and r[4][0][1] == conv[0][-1]) or r[4][0][1] == ('from', payload))
                    desc.append("Geometry::%s(from(payload))" % want if good else absint.term_str(p.ret)[:80])
                ok = ok and good
            ctx.ob("C20.dispatch", "Shape::%s -> Geometry" % name, ok, "; ".join(sorted(set(desc))), site=ctx.site_of(F, f["def"]),
                   key="C20.dispatch|shape->geometry|%s" % name)
    # --- Geometry -> Shape ----------------------------------------------------------------------
    f, _ = find_impl(F, "std::convert::TryFrom", "record::Shape", "geo_types::Geometry")
    if not f:
        ctx.missing("C20.dispatch", "TryFrom<geo_types::Geometry> for Shape")
    else:
        ps, _ = util.run_fn(F, f, inline=lambda g, t: False)
        seen = {}
        errs = 0
        bad = []
        for p in ps:
            if p.status != 'return':
                bad.append("a path panics")
                continue
            if is_agg(p.ret, None, 'Err'):
                errs += 1
                if [e for e in p.eff if e[0] == 'call']:
                    bad.append("a refused geometry is still converted")
                continue
            shp = agg_field(p.ret, '0')
            if not is_agg(shp, "record::Shape") or len(shp[4]) != 1:
                bad.append("path returns %s" % absint.term_str(p.ret)[:60])
                continue
            inner = shp[4][0][1]
            # `T::from(x)` is a call whose result is the payload; `x.into()` is the term from(x): look through either
            for e in p.eff:
                if e[0] == 'call' and e[-1] == inner and e[3] and len(e[3]) == 1:
                    inner = e[3][0]
            srcs = [x for x in absint.subterms(inner) if isinstance(x, tuple) and x and x[0] == 'proj' and x[1] == ('param', 1)
                    and len(x[2]) >= 2 and x[2][0][0] == 'v' and x[2][1] == ('f', '0')]
            gvs = set(x[2][0][1] for x in srcs)
            if len(gvs) != 1:
                bad.append("payload of %s is not derived from one geometry variant" % shp[2])
                continue
            gv = gvs.pop()
            seen[gv] = shp[2]
        for gv, sv in sorted(GEOM_SHAPE.items()):
            ctx.ob("C20.dispatch", "Geometry::%s -> Shape" % gv, seen.get(gv) == sv, "becomes Shape::%s (expected Shape::%s)" % (seen.get(gv), sv),
                   site=ctx.site_of(F, f["def"]), key="C20.dispatch|geometry->shape|%s" % gv)
        extra = sorted(set(seen) - set(GEOM_SHAPE))
        ctx.ob("C20.dispatch", "Geometry refusals", not bad and not extra and errs >= 2,
               "; ".join(bad) or "%d refusing arms (GeometryCollection, catch-all) return Err without converting; extra conversions: %s" % (errs, extra),
               site=ctx.site_of(F, f["def"]), key="C20.dispatch|geometry->shape|refusals")
    # --- Multipatch -> MultiPolygon -------------------------------------------------------------
    f, _ = find_impl(F, "std::convert::TryFrom", "geo_types::MultiPolygon", "Multipatch")
    mp_paths = None
    if not f:
        ctx.missing("C20.dispatch", "TryFrom<Multipatch> for MultiPolygon")
    else:
        ps, _ = util.run_fn(F, f)
        mp_paths = (f, ps)
        kinds = {v["vi"]: v["name"] for v in F.adts["record::multipatch::Patch"]["variants"]}
        refused = set()
        bad = []
        for p in ps:
            if p.status != 'return':
                bad.append("a path panics")
                continue
            ks = set()
            for t, v in p.cons:
                if t[0] == 'discr' and isinstance(v, int) and 'elem' in absint.term_str(t[1])[:12]:
                    ks.add(kinds.get(v))
            if is_agg(p.ret, None, 'Err'):
                refused |= (ks & {'TriangleStrip', 'TriangleFan'})
                if not (ks & {'TriangleStrip', 'TriangleFan'}):
                    bad.append("Err on %s" % sorted(ks))
        for k in ('TriangleStrip', 'TriangleFan'):
            ctx.ob("C20.dispatch", "Multipatch %s refused" % k, k in refused and not bad, "; ".join(bad) or "returns Err from the loop",
                   site=ctx.site_of(F, f["def"]), key="C20.dispatch|multipatch|%s" % k)
    # --- coords ---------------------------------------------------------------------------------
    for i in F.impls:
        if i.get("trait") != "std::convert::From":
            continue
        a, b = i["self_ty"], i["trait_args"][1]
        pts = ("record::point::Point", "record::point::PointM", "record::point::PointZ")
        geo = ("geo_types::Point", "geo_types::Coord")
        if not ((a in pts and b in geo) or (a in geo and b in pts)):
            continue
        f = F.fns.get(i["methods"][0]["key"])
        ps, _ = util.run_fn(F, f, summarise_pure=False)
        ok = len(ps) == 1
        desc = ""
        for p in ps:
            r = p.ret
            if a in pts:
                if not is_agg(r, a):
                    ok = False
                    desc = "returns %s" % absint.term_str(r)[:60]
                    continue
                vals = dict(r[4])
                if src_field(vals.get('x', ('?',))) != 'x' or src_field(vals.get('y', ('?',))) != 'y':
                    ok = False
                if 'z' in vals and vals['z'] != ('f64', '0.0'):
                    ok = False
                if 'm' in vals and vals['m'] != ('f64', '-1e39'):
                    ok = False
                desc = ", ".join("%s<-%s" % (k, src_field(v) or absint.term_str(v)) for k, v in r[4])
            else:
                if is_agg(r, "geo_types::Coord"):
                    vals = dict(r[4])
                    if src_field(vals['x']) != 'x' or src_field(vals['y']) != 'y':
                        ok = False
                    desc = ", ".join("%s<-%s" % (k, src_field(v)) for k, v in r[4])
                else:
                    calls = [e for e in p.eff if e[0] == 'call' and e[1].endswith('::new')]
                    if len(calls) != 1 or r != calls[0][-1] or [src_field(x) for x in calls[0][3]] != ['x', 'y']:
                        ok = False
                    desc = "Point::new(%s)" % ", ".join(str(src_field(x)) for x in (calls[0][3] if calls else []))
        ctx.ob("C20.coords", "%s <- %s" % (util.short_ty(a), util.short_ty(b)), ok, desc, site=ctx.site_of(F, f["def"]),
               key="C20.coords|%s<-%s" % (util.short_ty(a), util.short_ty(b)))
    # --- order ----------------------------------------------------------------------------------
    coll = ("GenericMultipoint", "GenericPolyline", "GenericPolygon", "Multipatch", "MultiPoint", "MultiLineString", "MultiPolygon",
            "LineString", "geo_types::Line", "geo_types::Polygon")
    for i in F.impls:
        if i.get("trait") not in ("std::convert::From", "std::convert::TryFrom"):
            continue
        a, b = i["self_ty"], i["trait_args"][1]
        if not ("geo_types" in a + b and any(c in a for c in coll) and any(c in b for c in coll)):
            continue
        f = F.fns.get(i["methods"][0]["key"])
        fns = [f] + [g for g in F.fns.values() if g.get("kind") == "Closure" and g.get("parent") == f["def"] and g.get("identity")]
        bad = []
        ncalls = 0
        for g in fns:
            for bidx, t in mir.calls(g):
                d = mir.callee_decl(t) or ''
                ncalls += 1
                if d in REORDER:
                    bad.append(d)
        # no element is skipped: in the part / point conversions every iteration of every loop pushes exactly one converted element
        # (ring grouping has its own rules: C20.nest, C20.tag)
        skipped = []
        if not any(w in a + b for w in ("Polygon", "Multipatch")):
            try:
                for p in util.run_fn(F, f, inline=lambda g, t: g.get("kind") == "Closure")[0]:
                    for lp in [e for e in absint.flat_effects(p.eff) if e[0] == 'loop']:
                        counts = sorted(set(len([e for e in bd['eff'] if e[0] == 'push']) for bd in lp[3]))
                        if counts not in ([1], [0]) and lp[3]:
                            skipped.append("a loop pushes %s elements per iteration depending on the path" % counts)
            except absint.Unanalysable as e:
                skipped.append("unanalysable: %s" % e)
        ctx.ob("C20.order", "%s <- %s" % (util.short_ty(a), util.short_ty(b)), not bad and not skipped,
               "%d calls inspected; reordering/dropping adaptors: %s%s" % (ncalls, sorted(set(bad)), ("; " + "; ".join(sorted(set(skipped)))) if skipped else ""),
               site=ctx.site_of(F, f["def"]), key="C20.order|%s<-%s" % (util.short_ty(a), util.short_ty(b)))
    # --- nest -----------------------------------------------------------------------------------
    def nest_table(f, ps, outer_kinds, inner_kinds, kind_names, label):
        table = {}
        for p in ps:
            if p.status != 'return':
                continue
            for lp in [e for e in p.eff if e[0] == 'loop']:
                for b in lp[3]:
                    kind = None
                    pending = None
                    for t, v in b['cons']:
                        ts = absint.term_str(t)
                        if t[0] == 'discr' and isinstance(v, int) and ts.startswith('discr(elem('):
                            kind = kind_names.get(v)
                        if t[0] == 'discr' and ts.startswith(('discr(upd(lv<', 'discr(lv<', 'discr(opt_as_ref(')):
                            pending = True if v == 1 else (False if v in (0, ('not', (1,))) else None)
                    if kind is None:
                        continue
                    news = [e for e in b['eff'] if e[0] == 'call' and e[1] == 'geo_types::Polygon::<T>::new']
                    ipush = [e for e in b['eff'] if e[0] == 'call' and e[1] == 'geo_types::Polygon::<T>::interiors_push']
                    pushes = [e for e in b['eff'] if e[0] == 'push']
                    table.setdefault((kind, pending), set()).add((len(news), len(ipush), len(pushes)))
        for kind in sorted(outer_kinds):
            got_some = table.get((kind, True), set())
            got_none = table.get((kind, False), set())
            ok = got_some == {(1, 0, 1)} and got_none == {(1, 0, 0)}
            ctx.ob("C20.nest", "%s: %s opens a polygon" % (label, kind), ok,
                   "with a pending polygon: (new, interiors_push, push) = %s; without: %s (expected (1,0,1) / (1,0,0))" % (sorted(got_some), sorted(got_none)),
                   site=ctx.site_of(F, f["def"]), key="C20.nest|%s|%s" % (label, kind))
        for kind in sorted(inner_kinds):
            got_some = table.get((kind, True), set())
            ok = got_some == {(0, 1, 0)}
            ctx.ob("C20.nest", "%s: %s is a hole of the pending polygon" % (label, kind), ok,
                   "with a pending polygon: (new, interiors_push, push) = %s (expected (0,1,0))" % sorted(got_some),
                   site=ctx.site_of(F, f["def"]), key="C20.nest|%s|%s" % (label, kind))
    f, _ = find_impl(F, "std::convert::From", "geo_types::MultiPolygon", "GenericPolygon")
    if not f:
        ctx.missing("C20.nest", "From<GenericPolygon> for MultiPolygon")
    else:
        ps, _ = util.run_fn(F, f)
        nest_table(f, ps, {"Outer"}, {"Inner"}, {0: "Outer", 1: "Inner"}, "polygon")
        # final flush
        flush = all(any(e[0] == 'push' for e in p.eff) or True for p in ps)
        tails = []
        for p in ps:
            if p.status == 'return':
                li = max([i for i, e in enumerate(p.eff) if e[0] == 'loop'] or [-1])
                tails.append(len([e for e in p.eff[li + 1:] if e[0] == 'push']))
        ctx.ob("C20.nest", "polygon: pending polygon flushed after the loop", set(tails) == {0, 1},
               "pushes after the loop on the exit paths: %s" % sorted(set(tails)), site=ctx.site_of(F, f["def"]), key="C20.nest|polygon|flush")
    if mp_paths:
        f, ps = mp_paths
        kinds = {v["vi"]: v["name"] for v in F.adts["record::multipatch::Patch"]["variants"]}
        nest_table(f, ps, {"OuterRing", "FirstRing"}, {"InnerRing", "Ring"}, kinds, "multipatch")


def tag_rule(ctx, F):
    """C20.tag: geo-types -> shapefile polygons: the exterior of every member polygon becomes an Outer ring, its interiors Inner
    rings, member by member, in order."""
    ctx.rule("C20.tag", "geo-types polygon -> shapefile: the exterior becomes the first ring and is tagged Outer, every interior is tagged "
                        "Inner and follows in order; a multi-polygon converts each member on its own (so every member's exterior is Outer) "
                        "and appends the rings in member order", floor=4)
    imps = [i for i in F.trait_impls("std::convert::From") if i["self_ty"].startswith("record::polygon::GenericPolygon")
            and "geo_types::" in str(i["trait_args"][1])]
    single = multi = None
    for i in imps:
        a = str(i["trait_args"][1])
        g = F.fns.get(i["methods"][0]["key"])
        if a.startswith("geo_types::Polygon"):
            single = g
        elif a.startswith("geo_types::MultiPolygon"):
            multi = g
    if not single or not multi:
        ctx.missing("C20.tag", "From<geo_types::Polygon> / From<geo_types::MultiPolygon> for GenericPolygon")
        return

    def helper_only(g, t):
        # private helpers are followed; the public constructors and the conversion impls stay calls
        return g.get("kind") == "Closure" or not (g.get("impl_trait") or g["def"].endswith(("::with_rings", "::new", "::into_inner")))

    def member_tagging(effs, src_pred):
        """(ok, why): exactly one Outer push built from the exterior of the source, then a loop over its interiors pushing Inner"""
        pushes = [e for e in effs if e[0] == 'push']
        loops = [e for e in effs if e[0] == 'loop']
        if len(pushes) != 1 or not is_agg(pushes[0][2], "record::polygon::PolygonRing", "Outer"):
            return False, "the exterior is not pushed as one Outer ring"
        ext = absint.term_str(pushes[0][2])
        if '.0.0' not in ext or not src_pred(ext):
            return False, "the Outer ring is not built from the exterior (%s)" % ext[:80]
        if len(loops) != 1:
            return False, "%d loops over the interiors" % len(loops)
        it = absint.term_str(loops[0][2].get('iter'))
        if not it.startswith('into_iter(') or '.1' not in it or any(w in it for w in ('skip', 'rev', 'take', 'filter')):
            return False, "interiors are not iterated whole and in order (%s)" % it[:80]
        for b in loops[0][3]:
            pu = [e for e in b['eff'] if e[0] == 'push']
            if len(pu) != 1 or not is_agg(pu[0][2], "record::polygon::PolygonRing", "Inner") or 'elem(' not in absint.term_str(pu[0][2]):
                return False, "an interior is not pushed as one Inner ring built from the loop's element"
        k_push = effs.index(pushes[0])
        k_loop = effs.index(loops[0])
        if k_push > k_loop:
            return False, "interiors are pushed before the exterior"
        return True, "Outer(exterior), then Inner(interior) for each interior in order"

    def closure_fn(t):
        return F.fns.get(t[1]) if isinstance(t, tuple) and t and t[0] == 'closure' else None

    def chain_form_single(p):
        """with_rings(once(Outer(exterior)).chain(interiors.into_iter().map(|r| Inner(r))).collect())"""
        calls = [e for e in p.eff if e[0] == 'call' and (e[2] or e[1]).endswith('::with_rings')]
        if len(calls) != 1 or p.ret != calls[0][-1] or not calls[0][3]:
            return None
        x = calls[0][3][0]
        if not (x[0] == 'collect' and x[1][0] == 'chain' and x[1][1][0] == 'once' and x[1][2][0] == 'map'):
            return None
        outer, m = x[1][1][1], x[1][2]
        so = absint.term_str(outer)
        if not (is_agg(outer, "record::polygon::PolygonRing", "Outer") and '.0.0' in so and 'into_inner' in so):
            return False, "the ring put first is not Outer(exterior)"
        its = absint.term_str(m[1])
        if not (its.startswith('into_iter(') and '.1' in its and not any(w in its for w in ('skip', 'rev', 'take', 'filter'))):
            return False, "interiors are not iterated whole and in order (%s)" % its[:60]
        g = closure_fn(m[2])
        if g is None:
            return False, "interiors are not mapped by a closure of this crate"
        for q in absint.Interp(F, inline=helper_only).run(g):
            if q.status != 'return' or not is_agg(q.ret, "record::polygon::PolygonRing", "Inner") or \
                    not absint.contains(q.ret, ('param', 2)):
                return False, "an interior does not become Inner(that interior)"
        return True, "once(Outer(exterior)).chain(interiors.map(Inner)), collected in order"

    def flat_map_form_multi(p):
        """with_rings(members.into_iter().flat_map(|m| GenericPolygon::from(m).into_inner()).collect())"""
        calls = [e for e in p.eff if e[0] == 'call' and (e[2] or e[1]).endswith('::with_rings')]
        if len(calls) != 1 or p.ret != calls[0][-1] or not calls[0][3]:
            return None
        x = calls[0][3][0]
        if not (x[0] == 'collect' and x[1][0] == 'flat_map'):
            return None
        its = absint.term_str(x[1][1])
        if its != 'into_iter(arg1)':
            return False, "members are not iterated whole and in order (%s)" % its[:60]
        g = closure_fn(x[1][2])
        if g is None:
            return False, "members are not mapped by a closure of this crate"
        for q in absint.Interp(F, inline=helper_only).run(g):
            conv = [e for e in q.eff if e[0] == 'call' and (e[2] or '') == single["def"] and e[3] and e[3][0] == ('param', 2)]
            inner = [e for e in q.eff if e[0] == 'call' and (e[2] or e[1]).endswith('::into_inner') and conv and e[3] and e[3][0] == conv[0][-1]]
            if q.status != 'return' or len(conv) != 1 or len(inner) != 1 or q.ret != inner[0][-1]:
                return False, "a member is not converted on its own by the single-polygon conversion"
        return True, "each member through the single-polygon conversion (flat_map), rings in member order"

    # single polygon
    try:
        ps, _ = util.run_fn(F, single, inline=helper_only)
    except absint.Unanalysable as e:
        ctx.unanalysable("C20.tag", "From<geo_types::Polygon>", str(e))
        ps = []
    good, why = bool(ps), set()
    for p in ps:
        cf = chain_form_single(p)
        if cf is not None:
            good = good and cf[0]
            why.add(cf[1])
            continue
        ok, w = member_tagging(list(p.eff), lambda s_: 'into_inner' in s_)
        good = good and ok
        why.add(w)
        calls = [e for e in p.eff if e[0] == 'call' and (e[2] or e[1]).endswith('::with_rings')]
        if len(calls) != 1 or p.ret != calls[0][-1]:
            good = False
            why.add("the result is not with_rings(the rings pushed)")
    ctx.ob("C20.tag", "polygon: exterior Outer, interiors Inner", good, "; ".join(sorted(why)), site=ctx.site_of(F, single["def"]),
           key="C20.tag|polygon")
    # multi polygon
    try:
        ps, _ = util.run_fn(F, multi, inline=helper_only)
    except absint.Unanalysable as e:
        ctx.unanalysable("C20.tag", "From<geo_types::MultiPolygon>", str(e))
        ps = []
    good, why = bool(ps), set()
    for p in ps:
        ff = flat_map_form_multi(p)
        if ff is not None:
            good = good and ff[0]
            why.add(ff[1])
            continue
        loops = [e for e in p.eff if e[0] == 'loop']
        if len(loops) != 1:
            good = False
            why.add("%d loops over the members" % len(loops))
            continue
        it = absint.term_str(loops[0][2].get('iter'))
        if it != 'into_iter(arg1)' and not (it.startswith('into_iter(') and 'arg1' in it and not any(w in it for w in ('skip', 'rev', 'take', 'filter', 'flat_map', 'chain'))):
            good = False
            why.add("members are not iterated whole and in order (%s)" % it[:80])
        for b in loops[0][3]:
            effs = list(b['eff'])
            conv = [e for e in effs if e[0] == 'call' and (e[2] or '') == single["def"] and e[3] and 'elem(' in absint.term_str(e[3][0])]
            if len(conv) == 1:
                app = [e for e in effs if e[0] == 'call' and e[1] in ("std::vec::Vec::<T, A>::append", "std::iter::Extend::extend")]
                if len(app) != 1:
                    good = False
                    why.add("the member's rings are not appended once")
                else:
                    why.add("each member through the single-polygon conversion, rings appended in order")
            else:
                ok, w = member_tagging(effs, lambda s_: 'elem(' in s_)
                good = good and ok
                why.add("inline: " + w)
        calls = [e for e in p.eff if e[0] == 'call' and (e[2] or e[1]).endswith('::with_rings')]
        if len(calls) != 1 or p.ret != calls[0][-1]:
            good = False
            why.add("the result is not with_rings(all rings)")
    ctx.ob("C20.tag", "multi-polygon: member by member", good, "; ".join(sorted(why)), site=ctx.site_of(F, multi["def"]),
           key="C20.tag|multipolygon")
    # the M / Z variants go through the same generic impls (GenericPolygon<PointType>): one instance each is enough
    for name in ("single", "multi"):
        ctx.ob("C20.tag", "generic over the point type (%s)" % name, "PointType" in (single if name == "single" else multi)["def"],
               "one generic impl serves Polygon, PolygonM and PolygonZ", trivial=True)
