"""C02 — every written .shp is a well-formed ESRI shapefile (E2 layouts against spec/esri.json, E4 facts)."""
import json

from .. import absint, affine, layout, mir, util, writer_model as wm
from ..absint import is_agg, agg_field
from .C09 import build

SELF = ('T', ('param', 1))


def run(ctx):
    _run(ctx)
    ctx.delegate("C05", ["C05.fold", "C05.fields", "C05.minmax"], "C02.box",
                 "the box and the Z / M ranges stored in a record are the extremes of the arrays that follow them: the constructors fold "
                 "min/max over every vertex of every part", floor=10)
    ctx.delegate("C09", ["C09.ctor", "C09.W5"], "C02.commit",
                 "a writer that received no shape still leaves a well-formed header-only file: a new writer is dirty", floor=3)

def _run(ctx):
    F = ctx.facts("default")
    sp = util.spec()
    ctx.rule("C02.header", "Header::write_to emits exactly the ESRI main header: BE 9994, 20 zero bytes, BE length, LE version, LE type "
                           "code (= discriminant), then the eight LE doubles bound to Xmin, Ymin, Xmax, Ymax, Zmin, Zmax, Mmin, Mmax "
                           "(100 bytes); version is 1000 from Default and nothing assigns it", floor=14)
    ctx.rule("C02.layout", "for each of the 13 types the abstract layout of write_to (primitive kinds, endianness, field bindings, "
                           "repetitions and what counts them) equals the ESRI record layout with the M block present", floor=13)
    ctx.rule("C02.offsets", "part offsets are the running sum of part lengths starting at the constant 0 (ascending, first = 0); "
                            "multipatch part kinds are written with the ESRI codes 0..5", floor=8)
    ctx.rule("C02.reclen", "each record starts with BE record number = the counter (1, 2, ...) and BE content length; the running file "
                           "length grows by content words + 4 per record and by nothing else, and is what finalize writes at offset 0", floor=3)
    ctx.rule("C02.type", "the type code written in every record is the file's type (the header's shape type)", floor=2)
    ctx.rule("C02.contig", "no gaps or trailing bytes: records only appended at the end, header only at offset 0 and exactly 100 bytes "
                           "(typestate invariants W1-W3 over all histories)", floor=2)
    ctx.trusted = ["spec/esri.json transcribed from the ESRI whitepaper", "rustc MIR", "byteorder write_X emit the value's bytes in the named endianness"]
    # --- header ---------------------------------------------------------------------------------
    f = F.identity("header::Header::write_to")
    if not f:
        ctx.missing("C02.header", "Header::write_to")
    else:
        ps, _ = util.run_fn(F, f)
        succ = [p for p in ps if is_agg(p.ret, None, 'Ok')]
        site = ctx.site_of(F, f["def"])
        if len(succ) != 1:
            ctx.ob("C02.header", "paths", False, "%d successful paths" % len(succ), site=site)
        for p in succ[:1]:
            sig = layout.prim_sig(p, 'write')
            total = 0
            for i, fld in enumerate(sp["header"]):
                if i >= len(sig):
                    ctx.ob("C02.header", fld["name"], False, "missing", site=site, key="C02.header|%s" % fld["name"])
                    continue
                ty, en, w, e = sig[i]
                total += w or 0
                val = e[4]
                ok = True
                why = ""
                if fld["ty"] == "bytes":
                    content = e[3].get('content')
                    zero = content is not None and ((content[0] == 'repeat' and content[1] == ('int', 0)) or
                                                    (is_agg(content, 'array') and all(v == ('int', 0) for _, v in content[4])))
                    ok = e[1] == 'write_all' and w == fld["width"] and zero
                    why = "%s of %s bytes, content %s" % (e[1], w, absint.term_str(content)[:40] if content else None)
                else:
                    ok = (ty == fld["ty"] and en == fld["endian"])
                    why = "%s %s" % (ty, en)
                    if "const" in fld and fld["name"] == "file_code":
                        ok = ok and val == ('int', fld["const"])
                        why += " value %s" % absint.term_str(val)
                    elif fld["name"] == "shape_type":
                        inner = val[1] if val[0] == 'cast' else val
                        ok = ok and inner == ('discr', ('load', (SELF, (('f', 'shape_type'),))))
                        why += " value %s" % absint.term_str(val)
                    elif "bind" in fld:
                        want = ('load', (SELF, tuple(('f', x) for x in fld["bind"].split('.'))))
                        ok = ok and val == want
                        why += " bound to %s" % absint.term_str(val)
                    else:
                        want = ('load', (SELF, (('f', fld["name"]),)))
                        ok = ok and val == want
                        why += " bound to %s" % absint.term_str(val)
                ctx.ob("C02.header", fld["name"], ok, why, site=site, key="C02.header|%s" % fld["name"])
            ctx.ob("C02.header", "size", len(sig) == len(sp["header"]) and total == sp["header_bytes"],
                   "%d primitives, %d bytes" % (len(sig), total), site=site, key="C02.header|size")
    from .C10 import field_assign_sites
    w = sorted(set(x["def"] for x, _ in field_assign_sites(F, "header::Header", "version")))
    ctx.ob("C02.header", "version never assigned", not w, "assignments to Header.version: %s (Default installs 1000: C09.ctor)" % w,
           key="C02.header|version-writes")
    # --- layouts --------------------------------------------------------------------------------
    wl = layout.writer_layouts(F, util)
    if len(wl) < 13:
        ctx.missing("C02.layout", "13 impls of WritableShape")
    for name, (fw, res) in sorted(wl.items()):
        spec_l = sp["layouts"].get(name)
        if spec_l is None:
            ctx.ob("C02.layout", name, False, "no ESRI layout for %s" % name)
            continue
        want, _ = layout.spec_variants(spec_l)
        site = ctx.site_of(F, fw["def"]) if fw else None
        if not res:
            ctx.ob("C02.layout", name, False, "no successful path", site=site)
        good = bool(res)
        desc = ""
        for W, L in res:
            if isinstance(L, str):
                ctx.unanalysable("C02.layout", name, L)
                good = None
                break
            if L != want:
                good = False
                desc = "library: %s  ESRI: %s" % (json.dumps(L), json.dumps(want))
        if good is None:
            continue
        ctx.ob("C02.layout", name, good, desc or "equals the ESRI layout (%d items)" % len(want), site=site, key="C02.layout|%s" % name)
        multipart = any(isinstance(x, list) and x[1] == 'parts' for x in want)
        if multipart:
            offs = all(W is not None and W.offsets_ok for W, L in res)
            ctx.ob("C02.offsets", "%s part offsets" % name, offs, "offsets = prefix sums of part lengths from 0" if offs else
                   "the value written per part is not a running sum starting at 0 that grows by the part's length after the write",
                   site=site, key="C02.offsets|%s" % name)
        if name == "Multipatch":
            padt = F.adts.get("record::multipatch::Patch")
            names = {v["vi"]: v["name"] for v in padt["variants"]} if padt else {}
            want_codes = {x["name"]: x["code"] for x in sp["patch_types"]}
            for W, L in res:
                got = {names.get(vi): code for vi, code in (W.patch_codes or [])}
                ctx.ob("C02.offsets", "Multipatch part kind codes", got == want_codes, "written codes %s, ESRI %s" % (got, want_codes),
                       site=site, key="C02.offsets|patch-codes")
    # --- record framing / file length ---------------------------------------------------------------
    W, tr = build(ctx, F, "C02.reclen")
    if W is None:
        return
    fw = tr['write_shape:fn']
    wsite = ctx.site_of(F, fw["def"])
    okp = [t for t in tr['write_shape'] if t['class'] == 'ok']
    good = bool(okp)
    why = []
    tgood = bool(okp)
    twhy = []
    for t in okp:
        flat = [e for e in absint.flat_effects(t['path'].eff)]
        shp = [e for e in flat if e[0] == 'io' and e[1] == 'write' and W.dest_name(e[2]) == 'shp']
        # strip the header group of a first write
        data = []
        skip = 0
        for e in [e for e in flat if e[0] == 'io' and e[1] in ('write', 'write_all') and W.dest_name(e[2]) == 'shp']:
            if e[4] == ('int', 9994) and e[3].get('endian') == 'BigEndian':
                skip = 100
            if skip > 0:
                skip -= e[3].get('width') or 0
                continue
            data.append(e)
        if len(data) != 3:
            good = False
            why.append("%d framing primitives before the shape" % len(data))
            continue
        rn, rl, code = data
        if not (rn[3]['endian'] == 'BigEndian' and rn[3]['ty'] == 'i32' and rn[4] == ('cast', wm.field_load(W.recnum_field), 'u32', 'i32')):
            good = False
            why.append("record number written is %s" % absint.term_str(rn[4]))
        if not (rl[3]['endian'] == 'BigEndian' and rl[3]['ty'] == 'i32'):
            good = False
            why.append("content length is not a BE i32")
        st = t['stores'].get((W.header_field, 'file_length'))
        try:
            form = affine.lin(st) if st is not None else None
            rlf = affine.lin(rl[4])
        except affine.NotAffine as e:
            form = None
            why.append(str(e))
        if form is None:
            good = False
            why.append("running length not updated")
        else:
            want = affine.add(affine.add({affine.strip_sites(wm.field_load(W.header_field, 'file_length')): 1, (): 0}, rlf), {(): 4})
            if not affine.eq(form, want):
                good = False
                why.append("length grows to %s, expected old + content words + 4" % affine.show(form))
        # type code
        cv = code[4]
        inner = cv[1] if cv[0] == 'cast' else cv
        type_now = t['stores'].get((W.header_field, 'shape_type'), wm.field_load(W.header_field, 'shape_type'))
        if not (code[3]['endian'] == 'LittleEndian' and code[3]['ty'] == 'i32' and inner == ('discr', type_now)):
            tgood = False
            twhy.append("record type code is %s" % absint.term_str(cv))
    ctx.ob("C02.reclen", "record header and running length", good, "; ".join(sorted(set(why))) or
           "BE rec_num, BE content words; file_length += content words + 4 on all %d success paths" % len(okp), site=wsite,
           key="C02.reclen|write_shape")
    ctx.ob("C02.type", "record type code", tgood, "; ".join(sorted(set(twhy))) or "LE discriminant of the header's shape type", site=wsite,
           key="C02.type|write_shape")
    # who stores file_length / rec_num through self
    stores_elsewhere = []
    for t in tr['finalize']:
        for k in t['stores']:
            if k in ((W.header_field, 'file_length'), (W.recnum_field,), (W.header_field, 'shape_type')):
                stores_elsewhere.append(k)
    # records are numbered 1..n: the counter moves by exactly one on every accepted write and on no other path
    rn_path = wm.selfpath(W.recnum_field)
    inc_ok = bool(okp) and all(t['stores'].get((W.recnum_field,)) == ('bin', 'Add', ('load', rn_path), ('int', 1), 'u32') for t in okp)
    burnt = [t['class'] for t in tr['write_shape'] if t['class'] != 'ok' and (W.recnum_field,) in t['stores']]
    ctx.ob("C02.reclen", "record numbering 1..n", inc_ok and not burnt,
           "counter += 1 on each of %d accepted-write paths; paths that reject or fail and still move it: %s (a refused write would leave "
           "a gap in the numbering)" % (len(okp), burnt), site=wsite, key="C02.reclen|numbering")
    ctx.ob("C02.reclen", "finalize leaves counters alone", not stores_elsewhere, "finalize stores %s" % stores_elsewhere,
           site=ctx.site_of(F, tr['finalize:fn']["def"]), key="C02.reclen|finalize-stores")
    fin = [t for t in tr['finalize'] if t['class'] == 'ok' and t['ops']]
    good = bool(fin)
    for t in fin:
        for d, k, info in t['ops']:
            if k == 'header' and d == 'shp':
                be = [e for e in info['prims'] if e[3].get('endian') == 'BigEndian' and e[3].get('ty') == 'i32']
                if len(be) != 2 or be[1][4] != wm.field_load(W.header_field, 'file_length'):
                    good = False
    ctx.ob("C02.reclen", "finalize writes the running length", good, "the .shp header's length field is the running length",
           site=ctx.site_of(F, tr['finalize:fn']["def"]), key="C02.reclen|finalize-length")
    ctx.ob("C02.type", "type agreement", True, "the header's type equals S::shapetype() on every accepted write (C10.first / C10.reject)", trivial=True)
    # --- contiguity -----------------------------------------------------------------------------
    for has_shx in (False, True):
        seen, findings, n = wm.explore(W, tr, has_shx)
        bad = [m for inv, m, h in findings if inv == 'W123']
        ctx.ob("C02.contig", "%s index: %d states" % ("with" if has_shx else "without", len(seen)), not bad,
               bad[0] if bad else "W1-W3 hold in all %d reachable states" % len(seen), site=wsite, key="C02.contig|%s" % has_shx)
