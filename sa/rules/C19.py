"""C19 — shape type codes form the ESRI table, for every 32-bit value (E1 tables vs spec/esri.json)."""
from .. import absint, util
from ..absint import is_agg, agg_field


def eval_bool(t, discr):
    """value of a boolean term built from comparisons of discr(self) with constants, !, & and |, for discr(self) = discr"""
    if t[0] == 'bool':
        return t[1]
    if t[0] == 'un' and t[1] == 'Not':
        v = eval_bool(t[2], discr)
        return None if v is None else (not v)
    if t[0] == 'bin' and t[1] in ('Eq', 'Ne') and t[2] == ('discr', ('param', 1)) and t[3][0] == 'int':
        return (discr == t[3][1]) == (t[1] == 'Eq')
    if t[0] == 'bin' and t[1] in ('BitAnd', 'BitOr'):
        a, b = eval_bool(t[2], discr), eval_bool(t[3], discr)
        if a is None or b is None:
            return None
        return (a and b) if t[1] == 'BitAnd' else (a or b)
    return None


def run(ctx):
    _run(ctx)
    ctx.delegate("C06", ["C06.typed"], "C19.typed",
                 "typed reads decode the code through the same table and report an invalid code with the value read", floor=20)
    ctx.delegate("C06", ["C06.dispatch"], "C19.decode",
                 "every record's type code is decoded (and an invalid one refused) before anything is made of the record: the generic "
                 "reader has one arm per code and an error for the rest", floor=14)

def _run(ctx):
    F = ctx.facts("default")
    sp = util.spec()
    codes = {s["code"]: s["name"] for s in sp["shape_types"]}
    ctx.rule("C19.from", "ShapeType::from: decision tree over the i32 argument maps exactly the 14 spec codes to the "
                         "same-named variant and every other value (otherwise arm) to None", floor=15)
    ctx.rule("C19.discr", "enum discriminants of ShapeType invert the code table (type -> code -> type is the identity)", floor=14)
    ctx.rule("C19.read", "ShapeType::read_from reads one little-endian i32, returns Ok(variant of from(code)) and on the "
                         "otherwise arm Err(InvalidShapeType(code)) carrying the value read", floor=15)
    ctx.rule("C19.write", "ShapeType::write_to emits the discriminant as one little-endian i32", floor=1)
    ctx.rule("C19.pred", "has_z / has_m / is_multipart equal the spec columns for every variant (otherwise arm included)", floor=42)
    ctx.rule("C19.display", "Display writes exactly the spec name of each variant", floor=14)
    ctx.rule("C19.header", "Header::read_from obtains the file's type through ShapeType::read_from (so an invalid header "
                           "code is the same InvalidShapeType error)", floor=1)
    ctx.assumptions.append("a MIR switchInt is a total decision over the scrutinee's type: the otherwise arm covers "
                           "every value not listed (so 2^32 codes are decided from 15 arms)")

    # --- from ---------------------------------------------------------------------------------
    f = F.identity("ShapeType::from")
    if not f:
        ctx.missing("C19.from", "ShapeType::from")
    else:
        ps, _ = util.run_fn(F, f)
        rows, (excl, dflt) = util.enum_table(ps, ('param', 1))
        for code, name in sorted(codes.items()):
            pl = rows.get(code, [])
            got = [util.variant_name(agg_field(p.ret, '0')) if is_agg(p.ret, None, 'Some') else str(p.ret) for p in pl]
            ctx.ob("C19.from", "code %d" % code, got == [name],
                   "from(%d) = %s, spec says %s" % (code, got, name), site=ctx.site_of(F, f["def"]))
        extra = sorted(set(rows) - set(codes))
        ctx.ob("C19.from", "no extra codes", not extra, "codes accepted beyond the spec: %s" % extra,
               site=ctx.site_of(F, f["def"]))
        ok = excl is not None and set(excl) == set(rows) and dflt and all(is_agg(p.ret, None, 'None') for p in dflt)
        ctx.ob("C19.from", "otherwise arm", ok,
               "otherwise arm returns %s for every value outside %s" % (
                   [absint.term_str(p.ret) for p in dflt], sorted(excl or [])), site=ctx.site_of(F, f["def"]))

    # --- discriminants ------------------------------------------------------------------------
    d = util.shapetype_discr(F)
    if d is None:
        ctx.missing("C19.discr", "enum ShapeType")
    else:
        for code, name in sorted(codes.items()):
            ctx.ob("C19.discr", name, d.get(name) == code, "%s as i32 = %s, spec %d" % (name, d.get(name), code))
        for name in sorted(set(d) - set(codes.values())):
            ctx.ob("C19.discr", name, False, "variant %s is not in the ESRI table" % name)

    # --- read_from ----------------------------------------------------------------------------
    f = F.identity("ShapeType::read_from")
    if not f:
        ctx.missing("C19.read", "ShapeType::read_from")
    else:
        ps, _ = util.run_fn(F, f, summarise_pure=False)
        seen_codes = set()
        for p in ps:
            ios = p.io()
            rd = ios[0] if ios else None
            one_le_i32 = (len(ios) == 1 and rd[1] == 'read' and rd[3]['ty'] == 'i32' and rd[3]['endian'] == 'LittleEndian')
            code_term = rd[-1] if rd else None
            val = util.scrutinee_constraint(p, code_term)        # all the tests of the value on this path, combined
            if isinstance(val, int):
                seen_codes.add(val)
                good = one_le_i32 and is_agg(p.ret, None, 'Ok') and util.variant_name(agg_field(p.ret, '0')) == codes.get(val)
                ctx.ob("C19.read", "code %d" % val, good, "read_from on code %d returns %s" % (val, absint.term_str(p.ret)),
                       site=ctx.site_of(F, f["def"]))
            else:
                err = agg_field(p.ret, '0') if is_agg(p.ret, None, 'Err') else None
                good = one_le_i32 and is_agg(err, 'Error', 'InvalidShapeType') and agg_field(err, '0') == code_term \
                    and val is not None and set(val[1]) == set(codes)
                ctx.ob("C19.read", "invalid code", good,
                       "on any other value read_from returns %s (must be Err(InvalidShapeType(<value read>)))"
                       % absint.term_str(p.ret), site=ctx.site_of(F, f["def"]))
        if seen_codes != set(codes):
            ctx.ob("C19.read", "coverage", False, "read_from distinguishes codes %s, spec has %s" % (sorted(seen_codes), sorted(codes)))

    # --- write_to -----------------------------------------------------------------------------
    f = F.identity("ShapeType::write_to")
    if not f:
        ctx.missing("C19.write", "ShapeType::write_to")
    else:
        ps, _ = util.run_fn(F, f)
        ok = True
        why = []
        for p in ps:
            ios = p.io()
            if len(ios) != 1 or ios[0][1] != 'write' or ios[0][3]['ty'] != 'i32' or ios[0][3]['endian'] != 'LittleEndian':
                ok = False
                why.append("emits %s" % [(e[1], e[3].get('ty'), e[3].get('endian')) for e in ios])
                continue
            v = ios[0][4]
            # value must be the discriminant of self, cast to i32
            inner = v[1] if v[0] == 'cast' else v
            if inner != ('discr', ('param', 1)):
                ok = False
                why.append("value written is %s, not `self as i32`" % absint.term_str(v))
        ctx.ob("C19.write", "write_to", ok and bool(ps), "; ".join(why) or "one LE i32 = discriminant(self)",
               site=ctx.site_of(F, f["def"]))

    # --- predicates ---------------------------------------------------------------------------
    for fname, col in (("ShapeType::has_z", "z"), ("ShapeType::has_m", "m"), ("ShapeType::is_multipart", "multipart")):
        f = F.identity(fname)
        if not f:
            ctx.missing("C19.pred", fname)
            continue
        ps, _ = util.run_fn(F, f)
        rows, (excl, dflt) = util.enum_table(ps, ('discr', ('param', 1)))
        for s in sp["shape_types"]:
            code, name = s["code"], s["name"]
            if col == "multipart" and s["family"] == "null":
                # not constrained by the property; still an instance so the count is stable
                ctx.ob("C19.pred", "%s(%s)" % (fname, name), True, "null shape: not constrained by the property", trivial=True)
                continue
            pl = rows.get(code)
            if pl is None:
                pl = dflt.for_value(code) if excl is not None else []
            vals = set()
            for p in pl:
                r = p.ret
                if r[0] not in ('bool', 'int'):
                    # a boolean expression over the discriminant (the last test of a chain returned without a branch):
                    # evaluate it for this variant
                    ev = eval_bool(r, code)
                    if ev is not None:
                        r = ('bool', ev)
                if r[0] == 'bool':
                    vals.add(r[1])
                elif r[0] == 'int':
                    vals.add(bool(r[1]))
                else:
                    vals.add(absint.term_str(r))
            ctx.ob("C19.pred", "%s(%s)" % (fname, name), vals == {s[col]},
                   "%s(%s) = %s, ESRI table says %s" % (fname, name, sorted(map(str, vals)), s[col]),
                   site=ctx.site_of(F, f["def"]))

    # --- Display ------------------------------------------------------------------------------
    f = None
    for imp in F.trait_impls("std::fmt::Display"):
        if imp["self_ty"] == "ShapeType":
            for m in imp["methods"]:
                f = F.fns.get(m["key"])
    if not f:
        ctx.missing("C19.display", "<ShapeType as Display>::fmt")
    else:
        ps, _ = util.run_fn(F, f, summarise_pure=False)       # a private name-table helper is followed, not summarised
        scrut = None
        for p in ps:
            for t, v in p.cons:
                if t[0] == 'discr':
                    scrut = t
        rows, (excl, dflt) = util.enum_table(ps, scrut)
        for s in sp["shape_types"]:
            pl = rows.get(s["code"])
            if pl is None:
                pl = dflt.for_value(s["code"]) if excl is not None else []
            strs = set()
            for p in pl:
                strs.update(util.strings_in_effects(p.eff))
            ctx.ob("C19.display", s["name"], strs == {s["name"]},
                   "Display(%s) writes %s" % (s["name"], sorted(strs)), site=ctx.site_of(F, f["def"]))

    # --- header uses read_from ----------------------------------------------------------------
    f = F.identity("header::Header::read_from")
    if not f:
        ctx.missing("C19.header", "Header::read_from")
    else:
        from .. import mir
        n = [b for b, t in mir.calls(f) if mir.callee_decl(t) == "ShapeType::read_from"]
        # and the shape_type field of the returned header is that call's Ok payload
        ctx.ob("C19.header", "Header::read_from", len(n) == 1,
               "Header::read_from calls ShapeType::read_from %d time(s)" % len(n), site=ctx.site_of(F, f["def"]))
