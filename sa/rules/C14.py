"""C14 — with an index, records are located by the index alone (E3 finite-atom path rules on ShapeIterator::next)."""
from .. import absint, mir, util
from ..absint import is_agg, agg_field

SELF = ('T', ('param', 1))


_OFF = {}


def OFF():
    """'.<name>' of the index entry's offset field (by role, see util.index_entry_fields); set in run()"""
    return '.' + (_OFF.get('name') or '?offset-field-not-found?')


def iterator_next(F):
    for imp in F.trait_impls("std::iter::Iterator"):
        if imp["self_ty"].startswith("reader::ShapeIterator"):
            for m in imp["methods"]:
                if m["name"] == "next":
                    return F.fns.get(m["key"])
    return None


def index_field(F):
    adt = F.adts.get("reader::ShapeIterator")
    if not adt:
        return None
    c = [x["name"] for x in adt["variants"][0]["fields"] if x["ty"].startswith("std::option::Option<std::slice::Iter<")]
    return c[0] if len(c) == 1 else None


def handover_rule(ctx, F):
    """C14.handover: the iterator is given the reader's index exactly when the reader has one"""
    ctx.rule("C14.handover", "iter_shapes_as hands the reader's index to the iterator exactly when there is one: on every path the "
                             "iterator's index field is None iff the reader's is, and otherwise iterates that very vector from its "
                             "first entry (no other test decides it)", floor=2)
    fs = F.inherent_method("reader::ShapeReader", "iter_shapes_as")
    fld = index_field(F)
    radt = F.adts.get("reader::ShapeReader")
    rf = [x["name"] for x in radt["variants"][0]["fields"] if x["ty"].startswith("std::option::Option<std::vec::Vec<")] if radt else []
    if not fs or not fld or len(rf) != 1:
        ctx.missing("C14.handover", "ShapeReader::iter_shapes_as / the index fields of reader and iterator")
        return
    site = ctx.site_of(F, fs[0]["def"])
    src = ('load', (('T', ('param', 1)), (('f', rf[0]),)))
    ps, _ = util.run_fn(F, fs[0], summarise_pure=False)
    n = 0
    for p in ps:
        if p.status != 'return' or not is_agg(p.ret):
            continue
        v = agg_field(p.ret, fld)
        have = None
        for t, c in p.cons:
            if t == ('discr', src):
                have = (c == 1)
        if is_agg(v, None, 'None'):
            ok, what = have is False, "no index handed over"
        elif is_agg(v, None, 'Some'):
            it = agg_field(v, '0')
            whole = it[0] == 'iter' and absint.term_str(it[1]).replace(' ', '') in (
                absint.term_str(('load', (('T', ('param', 1)), (('f', rf[0]), ('v', 'Some'), ('f', '0'))))).replace(' ', ''),)
            ok, what = have is True and whole, "hands over %s" % absint.term_str(it)[:60]
        else:
            ok, what = False, "the iterator's index is %s" % absint.term_str(v)[:60]
        n += 1
        ctx.ob("C14.handover", "path %d (%s)" % (n, "index present" if have else "no index" if have is False else "presence not tested"),
               ok, what + ("" if ok else " — whether the iterator follows the index is decided by something other than the presence of "
                                         "the reader's index (%s)" % [absint.term_str(t)[:50] for t, c in p.cons if t[0] == 'discr'][:2]),
               site=site, key="C14.handover|%s|%s" % (have, is_agg(v, None, 'Some')))


def _ev(t, env):
    from .C03 import _ev as ev
    return ev(t, env)


def accept_rule(ctx, F):
    """C14.accept: random access and the indexed iteration refuse no entry of a valid index.  Valid: the record starts at or
    after byte 100 and its 8-byte header plus content (at least the 4-byte type code) ends at or before the declared end."""
    ctx.rule("C14.accept", "positional access (seek, read_nth_shape_as) and the indexed iteration return an error of their own "
                           "only for an index entry no valid file has: on every such path the tests on the entry's offset, its "
                           "length and the declared file length are unsatisfiable for sample triples with offset >= 50 words, "
                           "length >= 2 words and offset + 4 + length <= file length (equality included)", floor=2)
    off_name, len_name = util.index_entry_fields(F) or (None, None)
    targets = [f for n_ in ("seek", "read_nth_shape_as") for f in (F.inherent_method("reader::ShapeReader", n_) or [])[:1]]
    nx = iterator_next(F)
    if nx:
        targets.append(nx)
    if not off_name or len(targets) < 3:
        ctx.missing("C14.accept", "index entry fields / seek, read_nth_shape_as, ShapeIterator::next")
        return
    samples = [(50, 56, 2), (50, 60, 6), (50, 64, 10), (56, 62, 2), (1000, 1006, 2), (1000, 5000, 100),
               (50, 2 ** 31 - 1, 10), (2 ** 30 - 7, 2 ** 30 - 1, 2)]

    def role(t):
        if isinstance(t, tuple) and t and t[0] in ('load', 'proj') :
            path = t[1][1] if t[0] == 'load' else t[2]
            last = [e for e in path if isinstance(e, tuple) and e and e[0] == 'f']
            if last:
                nm = last[-1][1]
                return 'off' if nm == off_name else 'len' if nm == len_name else 'fl' if nm == 'file_length' else None
        return None

    for g in targets:
        site = ctx.site_of(F, g["def"])
        try:
            ps, _ = util.run_fn(F, g, summarise_pure=False,
                                inline=lambda g2, t: not mir.callee_decl(t).endswith(("::read_from", "read_one_shape_as")))
        except absint.Unanalysable as e:
            ctx.unanalysable("C14.accept", g["def"], str(e))
            continue
        refused, undecided, npaths = None, 0, 0
        for p in ps:
            r = p.ret
            if p.status != 'return':
                continue
            e = agg_field(r, '0') if is_agg(r, None, 'Err') else (agg_field(agg_field(r, '0'), '0') if is_agg(r, None, 'Some') and
                                                                 is_agg(agg_field(r, '0'), None, 'Err') else None)
            if e is None or e[0] in ('err', 'from') or (e[0] == 'from' ):
                continue                          # not an error, or one handed on from the source / the record reader
            if not (is_agg(e) or e[0] in ('ret', 'app')):
                continue
            syms = {}
            for t, c in p.cons:
                for x in absint.subterms(t):
                    rl = role(x)
                    if rl:
                        syms[x] = rl
            atoms = [(t, c) for t, c in p.cons if any(x in syms for x in absint.subterms(t))]
            if not atoms:
                continue
            npaths += 1
            for off, fl, ln in samples:
                env = {x: {'off': off, 'fl': fl, 'len': ln}[rl] for x, rl in syms.items()}
                ok = True
                for t, c in atoms:
                    x = _ev(t, env)
                    if x is None:
                        ok = None
                        break
                    want = (x == c) if isinstance(c, int) else (x not in c[1]) if isinstance(c, tuple) and c and c[0] == 'not' else None
                    if want is None:
                        ok = None
                        break
                    if not want:
                        ok = False
                        break
                if ok is None:
                    undecided += 1
                    break
                if ok and refused is None:
                    refused = (off, fl, ln)
        ctx.ob("C14.accept", g["def"].split("::")[-1], refused is None,
               "%d error path(s) of its own test the entry; none is taken for a valid entry (%d not evaluable)" % (npaths, undecided)
               if refused is None else
               "a valid entry is refused: offset %d words, content length %d words, declared file length %d words (the record ends "
               "%s the declared end)" % (refused[0], refused[2], refused[1],
                                         "exactly at" if refused[0] + 4 + refused[2] == refused[1] else "before"),
               site=site, key="C14.accept|%s" % g["def"].split("::")[-1])


def run(ctx):
    handover_rule(ctx, ctx.facts("default"))
    accept_rule(ctx, ctx.facts("default"))
    _run(ctx)
    ctx.delegate("C04", ["C04.agree"], "C14.index", "the index the iteration follows holds every entry of the .shx, in order", floor=2)
    ctx.delegate("C03", ["C03.stop"], "C14.counter",
                 "the tracked position the seek decision compares with is the real one: it advances by exactly the bytes of each "
                 "record read", floor=3)
    ctx.delegate("C15", ["C15.R0", "C15.R2", "C15.R1", "C15.R6"], "C14.history",
                 "iteration agrees with random access also when they are interleaved on one reader: random access starts with an "
                 "absolute seek and leaves the source where a new iterator assumes it; a fresh iterator's believed position is the real one",
                 floor=3)

def _run(ctx):
    F = ctx.facts("default")
    _OFF['name'] = util.index_entry_fields(F)[0]
    if not _OFF['name']:
        ctx.missing("C14.seek", "offset field of the index entry (first big-endian i32 of each parsed entry)")
    ctx.rule("C14.end", "every path of ShapeIterator::next that returns None while an index may be present passes through the "
                        "index iterator being exhausted (the byte-position guard must not end an indexed iteration)", floor=1)
    ctx.rule("C14.seek", "every path from 'index entry obtained' to the record read either carries 2*offset == position counter or "
                         "seeks to Start(2*offset) and sets the counter to it", floor=2)
    ctx.rule("C14.one", "exactly one index entry is consumed per yielded item; without an index none is", floor=2)
    ctx.rule("C14.random", "ShapeReader::seek(i) seeks to Start(2*offset[i]) — the same expression as iteration", floor=1)
    ctx.rule("C14.order", "index order is preserved from the .shx to the iteration: no reordering, dropping or deduplicating call in "
                          "any function that parses, stores or walks the index (blacklist over their resolved callees)", floor=3)
    f = iterator_next(F)
    idxf = index_field(F)
    if not f:
        ctx.missing("C14.end", "<ShapeIterator as Iterator>::next")
        return
    if not idxf:
        ctx.missing("C14.end", "index-iterator field of ShapeIterator (Option<slice::Iter<ShapeIndex>>)")
        return
    site = ctx.site_of(F, f["def"])
    ps, _ = util.run_fn(F, f, inline=lambda g, t: True)
    idx_discr = ('discr', ('load', (SELF, (('f', idxf),))))

    def index_state(p):
        for t, v in p.cons:
            if t == idx_discr:
                return 'present' if v == 1 else 'absent'
        return 'unknown'

    def index_nexts(p):
        """constraints about the index iterator's next(): list of (term, exhausted?)"""
        out = []
        for t, v in p.cons:
            for s in absint.subterms(t):
                if isinstance(s, tuple) and s and s[0] == 'next' and idxf in absint.term_str(s[1]):
                    exhausted = None
                    if t[0] == 'discr' and t[1][0] == 'trybranch':
                        exhausted = (v == 1)
                    elif t[0] == 'discr' and t[1][0] == 'next':
                        exhausted = (v == 0)
                    out.append((s, exhausted))
                    break
        return out

    # --- end ----------------------------------------------------------------------------------
    nones = [p for p in ps if p.status == 'return' and is_agg(p.ret, None, 'None')]
    n = 0
    for p in nones:
        st = index_state(p)
        if st == 'absent':
            continue
        n += 1
        nx = index_nexts(p)
        ok = any(ex for _, ex in nx)
        conds = [(absint.term_str(t)[:70], v) for t, v in p.cons]
        ctx.ob("C14.end", "None path (index %s)" % st, ok,
               "returns None under %s %s" % (conds, "after the index is exhausted" if ok else
                                             "— the index is never consulted on this path, so an indexed iteration can end while "
                                             "entries remain (records stored before an earlier-indexed one are dropped)"),
               site=site, key="C14.end|ShapeIterator::next|%s" % ("index-exhausted" if ok else "none-without-consulting-index"))
    if n == 0:
        ctx.ob("C14.end", "None paths", False, "no None-returning path with an index present", site=site)
    # --- seek / one ---------------------------------------------------------------------------
    items = [p for p in ps if p.status == 'return' and is_agg(p.ret, None, 'Some') and is_agg(agg_field(p.ret, '0'), None, 'Ok')]
    pos_field = None
    for p in items:
        for e in p.eff:
            if e[0] == 'store' and e[1][0] == SELF:
                pos_field = e[1]
    with_idx = [p for p in items if index_state(p) == 'present']
    without = [p for p in items if index_state(p) == 'absent']
    if not with_idx:
        ctx.ob("C14.seek", "indexed item paths", False, "no item-yielding path with an index", site=site)
    for i, p in enumerate(with_idx):
        nx = index_nexts(p)
        entries = set(s for s, ex in nx if ex is False)
        ctx.ob("C14.one", "indexed item path #%d" % (i + 1), len(entries) == 1,
               "%d index entries consumed on a path that yields one item" % len(entries), site=site, key="C14.one|indexed")
        ios = p.io()
        seeks = [e for e in ios if e[1] == 'seek']
        reads = [k for k, e in enumerate(p.eff) if (e[0] == 'io' and e[1] in ('read', 'read_exact')) or
                 (e[0] == 'call' and 'read' in e[1])]
        first_read = min(reads) if reads else None
        eqs = [(t, v) for t, v in p.cons if t[0] == 'bin' and t[1] in ('Ne', 'Eq') and OFF() in absint.term_str(t)]
        ok = False
        how = ""
        for t, v in eqs:
            equal = (v == 0) if t[1] == 'Ne' else (v != 0)
            ts = absint.term_str(t)
            if equal and 'Mul(' in ts and ', 2)' in ts:
                ok = True
                how = "carries %s (already positioned)" % ts[:90]
        if not ok and seeks:
            e = seeks[0]
            v = e[4]
            tgt = agg_field(v, '0') if is_agg(v, 'std::io::SeekFrom', 'Start') else None
            ts = absint.term_str(tgt) if tgt else ''
            k = p.eff.index(e)
            sets = [x for x in p.eff[k:first_read if first_read else None] if x[0] == 'store' and x[1][0] == SELF]
            counter_ok = any((OFF() in absint.term_str(x[2]) and 'Mul(' in absint.term_str(x[2])) for x in sets)
            if tgt and OFF() in ts and 'Mul(' in ts and ', 2)' in ts and (first_read is None or k < first_read) and counter_ok:
                ok = True
                how = "seeks to Start(%s) before reading and sets the counter" % ts[:60]
            else:
                how = "seek target %s, counter updated %s" % (ts[:60], counter_ok)
        ctx.ob("C14.seek", "indexed item path #%d" % (i + 1), ok, how or "neither positioned by comparison nor by seek", site=site,
               key="C14.seek|indexed")
    for i, p in enumerate(without):
        nx = index_nexts(p)
        ctx.ob("C14.one", "sequential item path #%d" % (i + 1), not nx and not [e for e in p.io() if e[1] == 'seek'],
               "no index entry consumed, no seek", site=site, key="C14.one|sequential")
    # --- random -------------------------------------------------------------------------------
    fs = F.inherent_method("reader::ShapeReader", "seek")
    if not fs:
        ctx.missing("C14.random", "ShapeReader::seek")
        return
    ps2, _ = util.run_fn(F, fs[0])
    good = False
    desc = []
    for p in ps2:
        for e in p.io():
            if e[1] == 'seek' and is_agg(e[4], 'std::io::SeekFrom', 'Start'):
                ts = absint.term_str(agg_field(e[4], '0'))
                desc.append(ts[:80])
                if OFF() in ts and 'Mul(' in ts and ', 2)' in ts and 'arg2' in ts:
                    good = True
    ctx.ob("C14.random", "ShapeReader::seek", good, "seeks to %s" % desc, site=ctx.site_of(F, fs[0]["def"]), key="C14.random|seek")

    # --- order ----------------------------------------------------------------------------------
    from .C20 import REORDER
    touch = []
    for g in F.identity_fns():
        tys = " ".join(l["ty"] for l in g["locals"])
        if "ShapeIndex" in tys:
            touch.append(g)
    # functions handling the element type of the reader's index, wherever they live
    idx_elem = None
    radt = F.adts.get("reader::ShapeReader")
    if radt:
        for x in radt["variants"][0]["fields"]:
            m = __import__("re").match(r"std::option::Option<std::vec::Vec<(.+)>>$", x["ty"])
            if m:
                idx_elem = m.group(1)
    if idx_elem:
        for g in F.identity_fns():
            if g not in touch and any(idx_elem in l["ty"] for l in g["locals"]):
                touch.append(g)
    for g in touch:
        bad = [mir.callee_decl(t) for b, t in mir.calls(g) if mir.callee_decl(t) in REORDER]
        ctx.ob("C14.order", g["def"], not bad, "reordering / dropping calls: %s" % sorted(set(bad)), site=ctx.site_of(F, g["def"]),
               key="C14.order|%s" % g["def"], trivial=not bad and g["kind"] == "Closure")
