"""C08 — shapes and attribute rows stay paired one-to-one through write and read (E3)."""
from .. import absint, mir, util
from ..absint import is_agg, agg_field


def ext_literals(F, f):
    """string constants handed to Path::with_extension in f"""
    out = []
    for b, t in mir.calls(f):
        if mir.callee_decl(t) == "std::path::Path::with_extension":
            for a in t["args"]:
                if a["k"] == "const" and "str" in a:
                    out.append(a["str"])
    return out


def header_accept_rule(ctx, F):
    """C08.accept: the header reader refuses no header the header writer emits.  The k-th value read is the k-th value written;
    the writer's values are a constant, the running length (at least the constructors' value: it only grows, C09), the version the
    constructors install and a discriminant of ShapeType.  A path of Header::read_from that returns an error after testing values it
    read must be unsatisfiable over those domains."""
    import itertools
    ctx.rule("C08.accept", "Header::read_from returns an error of its own only for headers Header::write_to never emits: on every "
                           "error path the tests on the values read are contradicted by the values written at the same position "
                           "(the file code constant, a length of at least the constructors' 50 words, the version, a valid type code)",
             floor=2)
    fr, fw, fd = F.identity("header::Header::read_from"), F.identity("header::Header::write_to"), None
    for imp in F.trait_impls("std::default::Default"):
        if imp["self_ty"] in ("header::Header", "Header"):
            for m in imp["methods"]:
                fd = F.fns.get(m["key"])
    if not fr or not fw or not fd:
        ctx.missing("C08.accept", "Header::read_from / write_to / default")
        return
    site = ctx.site_of(F, fr["def"])
    dflt = [p.ret for p in util.run_fn(F, fd, summarise_pure=False)[0] if p.status == 'return']
    codes = sorted((util.shapetype_discr(F) or {}).values())
    wps = [p for p in util.run_fn(F, fw, summarise_pure=False)[0] if is_agg(p.ret, None, 'Ok')]
    if len(dflt) != 1 or len(wps) != 1 or not codes:
        ctx.missing("C08.accept", "one default header, one success path of write_to, the type codes")
        return
    doms = []
    for e in wps[0].io():
        v = e[4] if len(e) > 4 else None
        while isinstance(v, tuple) and v and v[0] == 'cast':
            v = v[1]
        if v is None:
            doms.append(None)
        elif v[0] == 'int':
            doms.append((v[1],))
        elif v[0] == 'discr':
            doms.append(tuple(codes))
        elif v[0] == 'load' and v[1][0] == ('T', ('param', 1)) and len(v[1][1]) == 1 and v[1][1][0][0] == 'f':
            d0 = agg_field(dflt[0], v[1][1][0][1])
            if d0 is None or d0[0] != 'int':
                doms.append(None)
            elif v[1][1][0][1] == 'file_length':
                doms.append((d0[1], d0[1] + 1, d0[1] + 14, 2 ** 31 - 1))      # only ever increased from the constructors' value
            else:
                doms.append((d0[1],))
        else:
            doms.append(None)
    n = 0
    seen = set()
    for p in util.run_fn(F, fr, summarise_pure=False)[0]:
        if p.status != 'return' or not is_agg(p.ret, None, 'Err'):
            continue
        reads = {}
        for k, e in enumerate(p.io()):
            reads[e[-1]] = k
        atoms = []
        free = False
        for t, v in p.cons:
            if t in reads:
                atoms.append(('in', reads[t], v))
            elif t[0] == 'bin' and t[1] in absint.CMP_OPS and (t[2] in reads or t[3] in reads):
                ops = []
                for x in (t[2], t[3]):
                    if x in reads:
                        ops.append(('r', reads[x]))
                    elif x[0] == 'int':
                        ops.append(('k', x[1]))
                    else:
                        free = True
                atoms.append((t[1], ops, (v != 0) if isinstance(v, int) else True))
        if not atoms:
            continue                                  # a failed read, passed on
        used = sorted(set([a[1] for a in atoms if a[0] == 'in'] + [o[1] for a in atoms if a[0] != 'in' for o in a[1] if o[0] == 'r']))
        key = repr(atoms)
        if key in seen:
            continue
        seen.add(key)
        n += 1
        if free or any(k >= len(doms) or doms[k] is None for k in used):
            ctx.ob("C08.accept", "path %d" % n, True, "tests a value the writer leaves free (not decided here)", site=site, trivial=True,
                   key="C08.accept|%s" % key[:80])
            continue
        witness = None
        for vals in itertools.product(*[doms[k] for k in used]):
            env = dict(zip(used, vals))
            ok = True
            for a in atoms:
                if a[0] == 'in':
                    x, c = env[a[1]], a[2]
                    ok = ok and ((x == c) if isinstance(c, int) else (x not in c[1]) if isinstance(c, tuple) and c[0] == 'not' else True)
                else:
                    x, y = [env[o[1]] if o[0] == 'r' else o[1] for o in a[1]]
                    r = {'Lt': x < y, 'Le': x <= y, 'Eq': x == y, 'Ne': x != y}[a[0]]
                    ok = ok and (r == a[2])
            if ok:
                witness = env
                break
        what = "; ".join("value #%d %s" % (a[1], a[2]) if a[0] == 'in' else "%s%s(%s)" % ("" if a[2] else "not ", a[0],
                         ", ".join("#%d" % o[1] if o[0] == 'r' else str(o[1]) for o in a[1])) for a in atoms)
        ctx.ob("C08.accept", what[:120], witness is None,
               "no header the writer emits takes this error path" if witness is None else
               "a header the writer emits is refused: value(s) %s written at position(s) %s (0 = file code, 2 = length in words, "
               "3 = version, 4 = type code)" % (list(witness.values()), list(witness.keys())), site=site,
               key="C08.accept|%s" % what[:120])


def run(ctx):
    header_accept_rule(ctx, ctx.facts("default"))
    ctx.delegate("C03", ["C03.accept", "C03.dispatch", "C03.recsize"], "C08.valid",
                 "every record the writer can emit is accepted back: part offsets with empty parts, all six patch kinds, the null "
                 "shape's 2-word record", floor=20)
    _run(ctx)
    ctx.delegate("C15", ["C15.R0", "C15.R2"], "C08.routes",
                 "pairs stay aligned after random access on the shape reader: it starts with an absolute seek and rewinds", floor=2)
    ctx.delegate("C18", ["C18.poly"], "C08.sizes",
                 "every shape type announces the size it emits, so the records (and with them the pairs) of every type read back", floor=13)
    ctx.delegate("C03", ["C03.stop"], "C08.seq",
                 "without an index the complete reader still returns every pair: the iteration ends exactly at the declared length and "
                 "the position counter advances by the size of each record", floor=3)
    ctx.delegate("C10", ["C10.reject"], "C08.reject", "a refused shape write leaves the three entry counts equal: it changes no writer state", floor=1)
    ctx.delegate("C04", ["C04.len"], "C08.count", "the .shx declares exactly the number of records written", floor=2)
    ctx.delegate("C09", ["C09.W5", "C09.ctor"], "C08.commit0",
                 "equal entry counts for every n including 0: a new writer is dirty (so drop emits both headers) and every "
                 "successful write leaves it dirty", floor=3)
    ctx.delegate("C04", ["C04.agree"], "C08.index",
                 "the complete reader sees every pair: the index it pairs rows with holds exactly the entries of the .shx", floor=2)

def _run(ctx):
    F = ctx.facts("default")
    ctx.rule("C08.order", "write_shape_and_record writes the shape, then the row, and propagates both results", floor=1)
    ctx.rule("C08.commit", "commit order: once a call has irreversibly committed an entry to some file (write_shape appends a record "
                           "and an index entry), no fallible call may follow on the path without a compensating action; otherwise a "
                           "failure of the later call leaves the files with different entry counts", floor=1)
    ctx.rule("C08.iter", "ShapeRecordIterator::next pulls exactly one shape and then exactly one row per item, ends when either "
                         "side ends, and pairs them as (shape, row)", floor=3)
    ctx.rule("C08.names", "writer and reader derive the sibling file names from the .shp path with the same extension literals "
                          "(shx, dbf); Reader::from_path requires the .dbf, ShapeReader::from_path takes the .shx when present", floor=6)
    fs = F.inherent_method("writer::Writer", "write_shape_and_record")
    if not fs:
        ctx.missing("C08.order", "Writer::write_shape_and_record")
    else:
        f = fs[0]
        site = ctx.site_of(F, f["def"])
        ps, I = util.run_fn(F, f, inline=lambda g, t: False)
        succ = [p for p in ps if is_agg(p.ret, None, 'Ok')]
        seqs = []
        for p in succ:
            seqs.append([('shape' if 'write_shape' in (e[2] or e[1]) else 'row' if 'write_record' in (e[2] or e[1]) else '?')
                         for e in p.eff if e[0] == 'call'])
        ctx.ob("C08.order", "write_shape_and_record", seqs == [['shape', 'row']], "call order on the success path: %s" % seqs, site=site,
               key="C08.order|write_shape_and_record")
        # commit order by fault enumeration
        sites = []
        for s, w in I.fallible_sites:
            if (s, w) not in sites:
                sites.append((s, w))
        committing = [s for s, w in sites if 'write_shape' in w]
        later = [(s, w) for s, w in sites if 'write_shape' not in w]
        for s, w in later:
            ps2, _ = util.run_fn(F, f, inline=lambda g, t: False, fail_site=s)
            for p in ps2:
                calls = [e for e in p.eff if e[0] == 'call']
                idx = [i for i, e in enumerate(calls) if e[4] == s]
                if not idx:
                    continue
                before = [e for e in calls[:idx[0]] if e[4] in committing]
                after = calls[idx[0] + 1:]
                ok = not before or bool(after)
                ctx.ob("C08.commit", "%s after write_shape" % w.split('::')[-1], ok,
                       "when %s fails, write_shape has already appended the record and its index entry and %s follows: the .shp/.shx "
                       "keep one more entry than the .dbf and later pairs are shifted" % (w, "no compensating call" if not after else "a call"),
                       site=site, key="C08.commit|write_shape_and_record|%s-after-write_shape" % w.split('::')[-1])
        if not later:
            ctx.ob("C08.commit", "no fallible call after the shape write", True, "nothing can fail after the commit", site=site)
    # --- iter ---------------------------------------------------------------------------------
    fn = None
    for imp in F.trait_impls("std::iter::Iterator"):
        if imp["self_ty"].startswith("reader::ShapeRecordIterator"):
            for m in imp["methods"]:
                if m["name"] == "next":
                    fn = F.fns.get(m["key"])
    if not fn:
        ctx.missing("C08.iter", "<ShapeRecordIterator as Iterator>::next")
    else:
        ps, _ = util.run_fn(F, fn, inline=lambda g, t: False)
        site = ctx.site_of(F, fn["def"])
        items = [p for p in ps if is_agg(p.ret, None, 'Some') and is_agg(agg_field(p.ret, '0'), None, 'Ok')]
        nones = [p for p in ps if is_agg(p.ret, None, 'None')]
        good = bool(items)
        desc = []
        # the two sides by role: the field holding the shape iterator, and the other (row) iterator field
        adt = F.adts.get("reader::ShapeRecordIterator") or {}
        flds = (adt.get("variants") or [{}])[0].get("fields", [])
        shape_f = [x["name"] for x in flds if x["ty"].startswith("reader::ShapeIterator")]
        row_f = [x["name"] for x in flds if not x["ty"].startswith("reader::ShapeIterator") and "PhantomData" not in x["ty"]]
        if len(shape_f) != 1 or len(row_f) != 1:
            ctx.missing("C08.iter", "ShapeRecordIterator: one shape-iterator field and one row-iterator field")
            shape_f, row_f = ["?"], ["?"]
        SHAPE_IT, ROW_IT = "." + shape_f[0], "." + row_f[0]

        def pulls_of(p):
            """(shape pulls, row pulls): calls of the shape iterator's next and next() terms on the record iterator"""
            sp = [e for e in p.eff if e[0] == 'call' and e[1] == 'std::iter::Iterator::next' and SHAPE_IT in absint.term_str(e[3][0])]
            rp = set()
            for t, v in p.cons:
                for x in absint.subterms(t):
                    if isinstance(x, tuple) and x and x[0] == 'next' and ROW_IT in absint.term_str(x[1]):
                        rp.add(x)
            for x in absint.subterms(p.ret) if p.ret else []:
                if isinstance(x, tuple) and x and x[0] in ('elem', 'elemref') and ROW_IT in absint.term_str(x[1]):
                    rp.add(('next', x[1], x[2]))
            return sp, rp
        for p in items:
            sp_, rp_ = pulls_of(p)
            tup = agg_field(agg_field(p.ret, '0'), '0')
            desc.append((len(sp_), len(rp_)))
            if len(sp_) != 1 or len(rp_) != 1 or not is_agg(tup, 'tuple'):
                good = False
                continue
            a, b = agg_field(tup, '0'), agg_field(tup, '1')
            if not (absint.contains(a, sp_[0][-1]) and ROW_IT in absint.term_str(b)):
                good = False
                desc.append("the pair is not (shape pulled, row pulled)")
        ctx.ob("C08.iter", "one shape then one row", good, "(shape pulls, row pulls) per item: %s" % desc, site=site, key="C08.iter|pulls")
        ends = set()
        for p in nones:
            sp_, rp_ = pulls_of(p)
            ends.add((len(sp_), len(rp_)))
        ctx.ob("C08.iter", "ends when either side ends", ends == {(1, 0), (1, 1)},
               "None is returned after (shape pulls, row pulls) = %s (shape side ended / row side ended)" % sorted(ends),
               site=site, key="C08.iter|ends")
        ctor = F.inherent_method("reader::Reader", "iter_shapes_and_records_as")
        if ctor:
            ps, _ = util.run_fn(F, ctor[0], inline=lambda g, t: False)
            cs = [e[2] or e[1] for p in ps for e in p.eff if e[0] == 'call']
            ok = any('iter_shapes_as' in c for c in cs) and any('iter_records_as' in c for c in cs)
            ctx.ob("C08.iter", "iterator construction", ok, "built from %s" % sorted(set(c.split('::')[-1] for c in cs)),
                   site=ctx.site_of(F, ctor[0]["def"]), key="C08.iter|ctor")
        else:
            ctx.missing("C08.iter", "Reader::iter_shapes_and_records_as")
    # --- names --------------------------------------------------------------------------------
    want = {
        ("writer::ShapeWriter", "from_path"): ["shx"],
        ("writer::Writer", "from_path"): ["dbf"],
        ("writer::Writer", "from_path_with_info"): ["dbf"],
        ("reader::ShapeReader", "from_path"): ["shx"],
        ("reader::Reader", "from_path"): ["dbf"],
    }
    for (ty, name), exts in want.items():
        fs = F.inherent_method(ty, name)
        if not fs:
            ctx.missing("C08.names", "%s::%s" % (ty, name))
            continue
        got = ext_literals(F, fs[0])
        ctx.ob("C08.names", "%s::%s" % (ty.split('::')[-1], name), sorted(got) == sorted(exts),
               "sibling extensions used: %s (expected %s)" % (got, exts), site=ctx.site_of(F, fs[0]["def"]),
               key="C08.names|%s::%s" % (ty, name))
    # Writer::from_path* also create the .shp/.shx through ShapeWriter::from_path with the same path
    for name in ("from_path", "from_path_with_info"):
        fs = F.inherent_method("writer::Writer", name)
        if fs:
            cs = [mir.callee_def(t) for _, t in mir.calls(fs[0])]
            ctx.ob("C08.names", "Writer::%s uses ShapeWriter::from_path" % name, any(c and c.endswith("ShapeWriter::<std::io::BufWriter<std::fs::File>>::from_path") for c in cs),
                   "calls %s" % [c.split('::')[-1] for c in cs if c and 'from_path' in c], site=ctx.site_of(F, fs[0]["def"]),
                   key="C08.names|Writer::%s|shape-writer" % name)
    fs = F.inherent_method("reader::Reader", "from_path")
    if fs:
        ps, _ = util.run_fn(F, fs[0], inline=lambda g, t: False)
        missing = [p for p in ps if is_agg(p.ret, None, 'Err') and is_agg(agg_field(p.ret, '0'), 'Error', 'MissingDbf')]
        good = bool(missing) and all(not [e for e in p.eff if e[0] == 'call' and 'from_path' in (e[2] or e[1])] for p in missing)
        okp = [p for p in ps if is_agg(p.ret, None, 'Ok')]
        good = good and bool(okp) and all(any('ShapeReader' in (e[2] or e[1]) and 'from_path' in (e[2] or e[1]) for e in p.eff if e[0] == 'call') for p in okp)
        ctx.ob("C08.names", "dbf mandatory", good, "Reader::from_path: MissingDbf when the .dbf does not exist, otherwise opens the "
               "shapes through ShapeReader::from_path", site=ctx.site_of(F, fs[0]["def"]), key="C08.names|dbf-mandatory")
    fs = F.inherent_method("reader::ShapeReader", "from_path")
    if fs:
        ps, _ = util.run_fn(F, fs[0], inline=lambda g, t: False)
        okp = [p for p in ps if p.status == 'return']
        ctors = set()
        for p in okp:
            for e in p.eff:
                if e[0] == 'call' and (e[2] or e[1]).endswith(('::with_shx', '::new')) and 'ShapeReader' in (e[2] or e[1]):
                    ctors.add((e[2] or e[1]).split('::')[-1])
        ctx.ob("C08.names", "shx optional", ctors == {'with_shx', 'new'}, "ShapeReader::from_path ends in %s" % sorted(ctors),
               site=ctx.site_of(F, fs[0]["def"]), key="C08.names|shx-optional")
