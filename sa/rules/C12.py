"""C12 — destination I/O failures surface from the failing call; finalize is retryable (E3)."""
from .. import absint, discipline, mir, util
from ..absint import is_agg, agg_field

BANNED_WRITE = {"std::io::Write::write", "std::io::Write::write_vectored", "std::io::Write::write_all_vectored"}
PANICKY = {"std::result::Result::<T, E>::unwrap", "std::result::Result::<T, E>::expect",
           "std::option::Option::<T>::unwrap", "std::option::Option::<T>::expect",
           "std::result::Result::<T, E>::unwrap_err", "std::result::Result::<T, E>::expect_err"}


def run(ctx):
    F = ctx.facts("default")
    ctx.delegate("C09", ["C09.W4", "C09.W123"], "C12.complete",
                 "finalize flushes each destination itself (a failing flush of either file is that call's error) and a finalize "
                 "repeated after a failure starts from absolute positions: headers at byte 0, records appended at the end", floor=4)
    ctx.rule("C12.errs", "for every fallible call site on the writer call graph (one instance per site): when that call fails, "
                         "every abstract path through it makes the enclosing function return a value carrying that error "
                         "(Err(..e..)); decided by abstract fault enumeration, so `let _ =`, `.ok()`, `unwrap_or`, storing the "
                         "result all violate it. Single exception: Drop::drop may discard finalize's result", floor=60)
    ctx.rule("C12.nopanic", "no unwrap/expect/panic site on the writer call graph; Drop::drop for ShapeWriter contains no "
                            "panic-capable call at all", floor=20)
    ctx.rule("C12.retry", "finalize: `dirty = false` is stored only on the all-success path and after the last I/O; on every "
                          "failing path `dirty` is untouched; each destination's first operation is an absolute seek to 0, so "
                          "a retry does not depend on where the failed attempt stopped", floor=4)
    ctx.rule("C12.short", "no call to Write::write / write_vectored anywhere in the crate, and byteorder's WriteBytesExt "
                          "bodies emit through write_all only (short writes cannot lose bytes)", floor=2)
    ctx.assumptions.append("BufWriter may defer a destination error to flush(): that is the caller's destination, not decided")

    roots, g = util.writer_graph(F)
    fns = util.generic_only(F, g.values())
    # closures are analysed as functions of their own too: one handed to an adaptor the engine does not model (fold,
    # for_each, ...) is otherwise never looked at
    nclos = sum(1 for f in fns if f["kind"] == "Closure")
    if len(fns) - nclos < 20:
        ctx.missing("C12.errs", "writer call graph (only %d functions reachable)" % len(fns))
    drop = None
    for imp in F.trait_impls("std::ops::Drop"):
        if imp["self_ty"].startswith("writer::ShapeWriter"):
            drop = F.fns.get(imp["methods"][0]["key"])
    wl = set()
    if drop:
        wl.add((drop["def"], "writer::ShapeWriter::<T>::finalize"))
    else:
        ctx.missing("C12.errs", "impl Drop for ShapeWriter")
    n = discipline.check(ctx, F, "C12.errs", fns, whitelist=wl)
    ctx.rule("C12.accum", "no error is lost between iterations: a `fold` over a Result accumulator hands a failed accumulator on, and "
                          "an iterator of Results is never consumed by an adaptor that throws its items away (count, last, for_each, "
                          "nth, max, min, drop); expected instance count on this tree is 0 — the positive control is in the witness crate "
                          "(thorough tier)", floor=0)
    ctx.extra["accumulating_consumers_found"] = discipline.check_accumulators(ctx, F, "C12.accum", fns)
    ctx.extra["fallible_sites_writer"] = n
    ctx.extra["writer_graph_functions"] = len(fns)

    # --- nopanic ------------------------------------------------------------------------------
    allfn = util.generic_only(F, g.values())
    for f in allfn:
        bad = []
        for b, t in mir.calls(f):
            d = mir.callee_decl(t)
            if d in absint.PANIC_DEFS or d in PANICKY:
                # constructor asserts on shapes are not on the writer graph; overflow asserts are Assert terminators
                bad.append((b, d))
        ctx.ob("C12.nopanic", f["def"], not bad,
               "no panic-capable call" if not bad else "calls %s" % sorted(set(d for _, d in bad)),
               site=ctx.site_of(F, f["def"], bad[0][0] if bad else None), key="C12.nopanic|%s" % f["def"],
               trivial=not bad and f["kind"] == "Closure")
    if drop:
        cs = [mir.callee_decl(t) for _, t in mir.calls(drop)]
        # drop calls finalize once and at most looks at / discards its result (no unwrap, no expect, nothing else)
        rest = [c for c in cs if c != "writer::ShapeWriter::<T>::finalize"]
        ok = cs.count("writer::ShapeWriter::<T>::finalize") == 1 and all(c in ("std::result::Result::<T, E>::is_err", "std::result::Result::<T, E>::is_ok", "std::result::Result::<T, E>::ok", "std::result::Result::<T, E>::err", "std::mem::drop") for c in rest) and not any(
            b["term"]["k"] == "assert" for b in drop["blocks"] if not b["cleanup"])
        ctx.ob("C12.nopanic", "Drop::drop body", ok, "drop calls %s" % cs, site=ctx.site_of(F, drop["def"]),
               key="C12.nopanic|drop-body")

    # --- retry --------------------------------------------------------------------------------
    fin = F.inherent_method("writer::ShapeWriter", "finalize")
    if not fin:
        ctx.missing("C12.retry", "ShapeWriter::finalize")
    else:
        f = fin[0]
        inline = lambda g2, t: g2["def"] != "header::Header::write_to" or True
        I = absint.Interp(F)
        ps = I.run(f)
        from .. import writer_model as wm_
        dirty_path = (('T', ('param', 1)), (('f', wm_.WriterFacts(F).dirty_field),))

        def dirty_stores(p):
            return [(i, e) for i, e in enumerate(p.eff) if e[0] == 'store' and e[1] == dirty_path]
        succ = [p for p in ps if p.status == 'return' and is_agg(p.ret, None, 'Ok') and p.io()]
        ok = bool(succ)
        why = []
        for p in succ:
            ds = dirty_stores(p)
            last_io = max(i for i, e in enumerate(p.eff) if e[0] in ('io', 'loop'))
            if len(ds) != 1 or ds[0][1][2] != ('bool', False) or ds[0][0] < last_io:
                ok = False
                why.append("success path stores dirty %s" % [(i, absint.term_str(e[2])) for i, e in ds])
        ctx.ob("C12.retry", "dirty cleared last", ok, "; ".join(why) or "%d success paths clear dirty after their last I/O" % len(succ),
               site=ctx.site_of(F, f["def"]), key="C12.retry|finalize|clear-last")
        # failing paths leave dirty untouched
        sites = []
        for s, w in I.fallible_sites:
            if (s, w) not in sites:
                sites.append((s, w))
        bad = []
        for s, w in sites:
            I2 = absint.Interp(F, fail_site=s)
            for p in I2.run(f):
                if any(x == s for x, _ in discipline.site_effects(p)) and dirty_stores(p):
                    bad.append(w)
        ctx.ob("C12.retry", "failure leaves dirty set", not bad and len(sites) >= 8,
               "%d fallible sites enumerated; dirty written after a failure of: %s" % (len(sites), sorted(set(bad))),
               site=ctx.site_of(F, f["def"]), key="C12.retry|finalize|fail-keeps-dirty")
        # a failed finalize leaves the writer's running state as it found it, so that the retry recomputes the same headers:
        # on a failing path a field may only be left with its old value or with the value an undisturbed finalize also leaves in it
        # (the in-place zeroing of untouched ranges, which is idempotent); a value moved out and put back only at the end is not
        def unchanged(p, pth, v):
            old = ('load', (('T', ('param', 1)), pth))
            if v == old:
                return True                                      # saved and restored
            # None stored over what this path knows to be None already (an Option taken when it was empty)
            return v == absint.NONE and any(t == ('discr', old) and c in (0, ('not', (1,))) for t, c in p.cons)

        ok_changed = {}
        for p in succ:
            fin_ = {}
            for e in absint.flat_effects(p.eff):
                if e[0] == 'store' and e[1][0] == ('T', ('param', 1)):
                    fin_[e[1][1]] = e[2]
            for pth, v in fin_.items():
                if not unchanged(p, pth, v):
                    ok_changed.setdefault(pth, set()).add(v)
        left = set()
        for s_, w in sites:
            for p in absint.Interp(F, fail_site=s_).run(f):
                if not any(x == s_ for x, _ in discipline.site_effects(p)) or p.status != 'return':
                    continue
                final = {}
                for e in absint.flat_effects(p.eff):
                    if e[0] == 'store' and e[1][0] == ('T', ('param', 1)):
                        final[e[1][1]] = e[2]
                for pth, v in final.items():
                    if v not in ok_changed.get(pth, ()) and not unchanged(p, pth, v):
                        left.add("%s after a failure of %s" % (absint.path_str((('T', ('param', 1)), pth)), w.split('::')[-1]))
        ctx.ob("C12.retry", "failure leaves the running state", not left,
               "; ".join(sorted(left)[:4]) or "no field of the writer is left changed by a failing finalize (beyond what a successful one changes)",
               site=ctx.site_of(F, f["def"]), key="C12.retry|finalize|fail-keeps-state")
        # first operation per destination is seek(Start(0))
        for p in succ:
            first = {}
            for e in p.io():
                first.setdefault(e[2], e)
            good = bool(first)
            desc = []
            for recv, e in first.items():
                v = e[4]
                isabs = e[1] == 'seek' and is_agg(v, 'std::io::SeekFrom', 'Start') and agg_field(v, '0') == ('int', 0)
                desc.append("%s: %s %s" % (absint.term_str(recv), e[1], absint.term_str(v) if v else ''))
                if not isabs:
                    good = False
            ctx.ob("C12.retry", "absolute seek first (%d destinations)" % len(first), good, "; ".join(desc),
                   site=ctx.site_of(F, f["def"]), key="C12.retry|finalize|abs-seek-first")

    # --- buffering inside the library: a BufWriter dropped without flush swallows the error of its last write -------------
    BUFW = ("std::io::BufWriter::<W>::new", "std::io::BufWriter::<W>::with_capacity", "std::io::LineWriter::<W>::new")
    nb = 0
    for g in F.identity_fns():
        if g.get("krate") != F.crate:
            continue
        for b, t in mir.calls(g):
            if mir.callee_decl(t) in BUFW:
                nb += 1
                ctor = g["def"].split("::{closure")[0].endswith(("::from_path", "::from_path_with_info"))
                ctx.ob("C12.errs", "%s creates a BufWriter" % g["def"], ctor,
                       "a BufWriter created for the caller by a from_path constructor (flushed by finalize)" if ctor else
                       "a BufWriter local to the library: bytes still buffered when it is dropped are written by its Drop, which "
                       "discards the error, so a failing destination is answered with Ok", site=ctx.site_of(F, g["def"], b),
                       key="C12.errs|bufwriter|%s" % g["def"])
    # --- short writes -------------------------------------------------------------------------
    allids = list(F.identity_fns())
    n = discipline.banned_calls(ctx, F, "C12.short", BANNED_WRITE, allids, "a short write would silently lose bytes")
    ctx.ob("C12.short", "crate-wide ban", True, "%d call sites in %d functions inspected, none is Write::write/write_vectored"
           % (n, len(allids)), key="C12.short|crate", trivial=False)
    bo = [f for f in F.fns.values() if f.get("krate") == "byteorder" and "blocks" in f and "WriteBytesExt::write_" in f["def"]]
    used = set()
    for f in F.identity_fns():
        for b, t in mir.calls(f):
            d = mir.callee_decl(t)
            if d and d.startswith("byteorder::WriteBytesExt::"):
                used.add(d)
    have = set(f["def"] for f in bo)
    for d in sorted(used):
        fs = [f for f in bo if f["def"] == d]
        if not fs:
            ctx.ob("C12.short", d, False, "body of %s not available to the extractor" % d, key="C12.short|%s" % d)
            continue
        outs = set()
        for f in fs:
            for b, t in mir.calls(f):
                dd = mir.callee_decl(t)
                if dd.startswith("std::io::Write::"):
                    outs.add(dd)
        ctx.ob("C12.short", d, outs == {"std::io::Write::write_all"}, "%s emits through %s" % (d, sorted(outs)),
               key="C12.short|%s" % d)
