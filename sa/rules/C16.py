"""C16 — polygon and multipatch constructors close and orient rings, losing no vertex (E3 + E1 + E2 polynomials)."""
import re
from .. import absint, mir, util
from ..absint import is_agg, agg_field

SELF = ('T', ('param', 1))


# tiny polynomial arithmetic over symbols (monomial = sorted tuple of symbol names)
def p_const(c):
    return {(): c}


def p_sym(s):
    return {(s,): 1}


def p_add(a, b, k=1):
    out = dict(a)
    for m, c in b.items():
        out[m] = out.get(m, 0) + k * c
    return {m: c for m, c in out.items() if c != 0}


def p_mul(a, b):
    out = {}
    for m1, c1 in a.items():
        for m2, c2 in b.items():
            m = tuple(sorted(m1 + m2))
            out[m] = out.get(m, 0) + c1 * c2
    return {m: c for m, c in out.items() if c != 0}


def poly(t, sym):
    k = t[0]
    if t in sym:
        return p_sym(sym[t])
    if k == 'f64':
        return p_const(float(t[1]))
    if k == 'int':
        return p_const(t[1])
    if k == 'bin' and t[1] in ('Add', 'Sub', 'Mul'):
        a, b = poly(t[2], sym), poly(t[3], sym)
        if a is None or b is None:
            return None
        return p_add(a, b) if t[1] == 'Add' else p_add(a, b, -1) if t[1] == 'Sub' else p_mul(a, b)
    return None


def _table_visible(ps):
    """the declared role of the ring is visible on the paths (a discriminant test of the ring itself)"""
    return any(t[0] == 'discr' and (t[1] == ('load', (SELF, ())) or (t[1][0] == 'upd' and t[1][1] == ('load', (SELF, ()))))
               for p in ps for t, v in p.cons)


def _len_upper(cons):
    """largest ring length (caller vertices) the path's tests on len(ring) allow, None when unbounded"""
    ub = None
    for t, v in cons:
        if t[0] != 'bin' or t[1] not in ('Lt', 'Le', 'Eq'):
            continue
        tv = (v != 0) if isinstance(v, int) else (True if v == ('not', (0,)) else None)
        if tv is None:
            continue
        a, b = t[2], t[3]
        k = None
        if a[0] == 'len' and b[0] == 'int' and tv:
            k = {'Lt': b[1] - 1, 'Le': b[1], 'Eq': b[1]}[t[1]]
        elif b[0] == 'len' and a[0] == 'int' and not tv and t[1] in ('Lt', 'Le'):
            k = {'Lt': a[1], 'Le': a[1] - 1}[t[1]]                     # !(k < len)  ->  len <= k
        if k is not None:
            ub = k if ub is None else min(ub, k)
    return ub


def macros_rule(ctx, F):
    from .. import witness
    ctx.rule("C16.macros", "every form of polygon! / multipatch! (expanded in a witness crate built against this tree) calls the "
                           "ring-closing constructors and puts every coordinate literal into the field it was written for (struct "
                           "and tuple forms, XY / XYM / XYZM); PointX::new binds its parameters in field order", floor=17)
    witness.macro_witnesses(ctx, "C16.macros")
    witness.macro_bindings(ctx, "C16.macros", F)


def run(ctx):
    F = ctx.facts("default")
    if not getattr(ctx, "is_sub", False):
        macros_rule(ctx, F)
    ctx.rule("C16.route", "every public constructor of GenericPolygon passes every ring through close_and_reorder (closing, then "
                          "orienting) before the box is computed and the polygon is built", floor=2)
    ctx.rule("C16.close", "closing appends exactly one copy of the first vertex, and only when the ring is not already closed "
                          "(is_part_closed = first == last, false for an empty ring)", floor=2)
    ctx.rule("C16.effects", "the only mutations of a ring's vertex vector reachable from the constructors are that push and a "
                            "reversal of the whole vector (never a sub-slice, never an element write)", floor=1)
    ctx.rule("C16.table", "reversal happens exactly on (declared Outer, computed Inner) and (declared Inner, computed Outer); the "
                          "orientation is computed on the closed ring", floor=4)
    ctx.rule("C16.area", "the per-edge term of the orientation sum is c*(x1*y0 - x0*y1) plus a telescoping difference with c > 0, "
                         "divided by a positive constant, and 'negative => inner' (zero is don't-care)", floor=2)
    ctx.rule("C16.patch", "Multipatch::with_parts closes exactly the four ring kinds and leaves triangle strips and fans untouched", floor=6)
    cr = None
    closed_defs = set(g["def"] for g in util.closedness_fns(F))
    # role-based discovery: the fn item handed to for_each in with_rings
    wr = F.inherent_method("record::polygon::GenericPolygon", "with_rings")
    if not wr:
        ctx.missing("C16.route", "GenericPolygon::with_rings")
        return
    fwr = wr[0]
    # candidates for the ring normaliser: any local function (method or free) of one `&mut PolygonRing<_>` argument
    closers = [g["def"] for g in F.identity_fns() if g["argc"] == 1 and g.get("kind") != "Closure" and
               g["locals"][1]["ty"].startswith("&mut record::polygon::PolygonRing")]
    ps, _ = util.run_fn(F, fwr, inline=lambda g, t: g["def"] not in closers)
    good = bool(ps)
    why = []
    closer = None
    for p in ps:
        if p.status != 'return':
            continue
        cons_i = [i for i, e in enumerate(p.eff) if e[0] == 'consume' and e[1] == 'for_each']
        loops_i = [i for i, e in enumerate(p.eff) if e[0] == 'loop']
        if not cons_i:
            # the same pass written as a loop: `for ring in rings.iter_mut() { closer(ring) }` before anything else
            lp = p.eff[loops_i[0]] if loops_i else None
            okloop = False
            if lp is not None:
                it = lp[2].get('iter')
                whole = it is not None and it[0] == 'iter' and it[2] == 'mut' and 'range' not in str(it[1]) and 'skip' not in str(it)
                cl = set()
                for b in lp[3]:
                    for e2 in b['eff']:
                        if e2[0] == 'call' and e2[3] and e2[3][0][0] in ('elemref', 'elem'):
                            cl.add(e2[2] or e2[1])
                if whole and len(cl) == 1:
                    closer = cl.pop()
                    okloop = True
                    if len(loops_i) > 1 and False:
                        pass
            if not okloop:
                good = False
                why.append("no pass over all rings that hands each ring to one closing/orienting function before the box is folded")
            if not is_agg(p.ret) or len(p.ret[4]) < 2:
                good = False
            continue
        if len(cons_i) != 1:
            good = False
            why.append("%d for_each passes over the rings" % len(cons_i))
            continue
        e = p.eff[cons_i[0]]
        it, fnitem = e[2], e[3][0] if e[3] else None
        if not (it[0] == 'iter' and it[2] == 'mut' and 'range' not in str(it[1]) and absint.contains(it, ('param', 1)) or
                (it[0] == 'iter' and it[2] == 'mut' and it[1][0] == 'at' and it[1][1][0][0] == 'L')):
            good = False
            why.append("for_each does not run over all rings mutably: %s" % absint.term_str(it))
        if not fnitem or fnitem[0] != 'fnitem' or not fnitem[4]:
            good = False
            why.append("for_each is not handed a function item")
        else:
            closer = fnitem[4]
        if loops_i and cons_i[0] > min(loops_i):
            good = False
            why.append("the box is folded before the rings are closed and oriented")
        if not is_agg(p.ret) or len(p.ret[4]) < 2:
            good = False
    ctx.ob("C16.route", "with_rings", good, "; ".join(sorted(set(why))) or "for_each(%s) over iter_mut() of all rings, then the box, then Self{..}" % closer,
           site=ctx.site_of(F, fwr["def"]), key="C16.route|with_rings")
    if closer:
        cr = F.identity(closer) or cr
    nw = F.inherent_method("record::polygon::GenericPolygon", "new")
    if nw:
        ps, _ = util.run_fn(F, nw[0], inline=lambda g, t: False)
        good = bool(ps)
        for p in ps:
            cs = [(e[2] or e[1]) for e in p.eff if e[0] == 'call']
            strip = lambda x: re.sub(r'::<[^<>]*(<[^<>]*>)?[^<>]*>', '', x)
            names = [strip(c) for c in cs]
            if names != [strip(closer or '?'), strip(fwr["def"])]:
                good = False
        ctx.ob("C16.route", "new", good, "new = <ring normaliser>(ring); with_rings(vec![ring])", site=ctx.site_of(F, nw[0]["def"]),
               key="C16.route|new")
    else:
        ctx.missing("C16.route", "GenericPolygon::new")
    if not cr:
        ctx.missing("C16.close", "the ring closing/orienting function handed to for_each")
        return
    csite = ctx.site_of(F, cr["def"])
    # the closedness predicate stays an atom (it is checked on its own below); other pure helpers are followed, not summarised
    ps, _ = util.run_fn(F, cr, summarise_predicates=True, summarise_pure=True, inline=lambda g, t: True)
    if not _table_visible(ps):
        ps, _ = util.run_fn(F, cr, summarise_predicates=True, summarise_pure=False)
    ps = [p for p in ps if p.status == 'return']
    payload = (SELF, (('vp', '0'),))
    # --- close / effects / table ----------------------------------------------------------------
    close_ok = bool(ps)
    unoriented = []
    eff_ok = True
    order_ok = True
    table = {}
    why_c, why_e = [], []
    def norm(t):
        # the vector of a ring reached through one variant (`Outer(points) => points`) is the ring's vector whichever the variant
        if isinstance(t, tuple):
            if len(t) == 2 and t[0] == SELF and isinstance(t[1], tuple) and len(t[1]) >= 2 and isinstance(t[1][0], tuple) and \
                    t[1][0] and t[1][0][0] == 'v' and t[1][1] == ('f', '0'):
                return (SELF, (('vp', '0'),) + tuple(norm(x) for x in t[1][2:]))
            return tuple(norm(x) for x in t)
        return t

    for p in ps:
        p.eff = [norm(e) if e[0] in ('push', 'mutate', 'store') else e for e in p.eff]
        closed = None
        for t, v in p.cons:
            if t[0] == 'app' and re.sub(r'::<[^<>]*>', '', t[1]) in closed_defs:
                closed = (v != 0) if isinstance(v, int) else True
            # closedness decided inline: only a full-point equality of first and last counts
            ts_ = absint.term_str(t)
            if t[0] == 'bin' and t[1] in ('Eq', 'Ne') and t[4] == 'partial_eq' and (
                    ('first' in ts_ and 'last' in ts_) or ('[0]' in ts_ and 'lastidx' in ts_)):
                tv = (v != 0) if isinstance(v, int) else True
                closed = tv if t[1] == 'Eq' else (not tv)
            if t[0] == 'ret' and isinstance(t[2], str) and t[2].endswith('PartialEq::eq'):
                closed = (v != 0) if isinstance(v, int) else True
        nonempty = any(t[0] == 'discr' and t[1][0] == 'first' and v == 1 for t, v in p.cons) or closed is not None
        if closed is None and any(e[0] in ('push', 'mutate') or True for e in p.eff) and \
                not any(t[0] == 'discr' and t[1][0] in ('first', 'last') and v in (0, ('not', (1,))) for t, v in p.cons):
            close_ok = False
            why_c.append("whether the ring is closed is not decided by `first == last` on this path (atoms: %s)"
                         % [absint.term_str(t)[:50] for t, v in p.cons][:3])
        pushes = [(i, e) for i, e in enumerate(p.eff) if e[0] == 'push']
        revs = [(i, e) for i, e in enumerate(p.eff) if e[0] == 'mutate']
        first_some = None
        for t, v in p.cons:
            if t[0] == 'discr' and t[1][0] == 'first':
                first_some = (v == 1)
        if closed is True and pushes:
            close_ok = False
            why_c.append("a closed ring is pushed to")
        if closed is False and first_some and len(pushes) != 1:
            close_ok = False
            why_c.append("an open ring gets %d pushes" % len(pushes))
        for i, e in pushes:
            if e[1] != payload or e[2] != ('load', (SELF, (('vp', '0'), ('i', ('int', 0))))):
                close_ok = False
                why_c.append("pushes %s onto %s" % (absint.term_str(e[2]), absint.path_str(e[1])))
        for i, e in revs:
            pth = e[2]
            whole = pth[0] == SELF and ((len(pth[1]) == 2 and pth[1][0][0] == 'v' and pth[1][1] == ('f', '0')) or
                                        pth[1] == (('vp', '0'),))
            if e[1] != 'reverse' or not whole:
                eff_ok = False
                why_e.append("%s on %s" % (e[1], absint.path_str(pth)))
        others = [e for e in p.eff if e[0] == 'store' and not any(e[1] == x[1][1] for x in pushes) and
                  not any(e[1] == x[1][2] for x in revs) and e[1] != payload and e[1] != (SELF, (('vp', '0'),))]
        if others:
            eff_ok = False
            why_e.append("other stores: %s" % [absint.path_str(e[1]) for e in others][:2])
        if pushes and revs and pushes[0][0] > revs[0][0]:
            order_ok = False
        # table
        declared = None
        computed = None
        for t, v in p.cons:
            if t[0] == 'discr' and (t[1] == ('load', (SELF, ())) or (t[1][0] == 'upd' and t[1][1] == ('load', (SELF, ())))):
                declared = {0: 'Outer', 1: 'Inner'}.get(v) if isinstance(v, int) else 'other'
            if t[0] == 'bin' and t[1] == 'Lt' and t[3] == ('f64', '0.0'):
                computed = 'Inner' if (v != 0 if isinstance(v, int) else True) else 'Outer'
                if pushes and 'pushed' not in absint.term_str(t):
                    order_ok = False
        if declared in ('Outer', 'Inner') and computed:
            table.setdefault((declared, computed), set()).add(bool(revs))
        elif computed is None and p.status == 'return' and (first_some or closed):
            # leaving without the orientation is only sound when the path bounds the ring to a size whose area is zero:
            # at most 2 caller vertices when it is open (3 once closed), at most 3 when it is closed already
            ub = _len_upper(p.cons)
            if ub is None or ub > (3 if closed else 2):
                unoriented.append("at most %s vertices" % ub if ub is not None else "any size")
    ctx.ob("C16.close", "close_points_if_not_already", close_ok, "; ".join(sorted(set(why_c))) or
           "pushes exactly one copy of vertex [0], only when not already closed", site=csite, key="C16.close|push")
    ctx.ob("C16.effects", "mutations", eff_ok, "; ".join(sorted(set(why_e))) or "only push(first) and reverse of the whole vector",
           site=csite, key="C16.effects|ring")
    want = {('Outer', 'Inner'): {True}, ('Inner', 'Outer'): {True}, ('Outer', 'Outer'): {False}, ('Inner', 'Inner'): {False}}
    for k, v in sorted(want.items()):
        ctx.ob("C16.table", "declared %s, computed %s" % k, table.get(k) == v,
               "reversed: %s (expected %s)%s" % (sorted(table.get(k, [])), sorted(v), "" if order_ok else "; orientation not computed on the closed ring"),
               site=csite, key="C16.table|%s|%s" % k)
    ctx.ob("C16.table", "every ring is oriented", not unoriented,
           "every path through the normaliser on a non-empty ring computes the orientation" if not unoriented else
           "a ring that can have non-zero area (%s) leaves the normaliser without its orientation having been computed (an early "
           "return on a size or shape test)" % sorted(set(unoriented)), site=csite, key="C16.table|all-oriented")
    ctx.ob("C16.table", "closing before orienting", order_ok, "push precedes reverse and the orientation sum is taken over the closed ring",
           site=csite, key="C16.table|order")
    # is_part_closed
    ipc = util.closedness_fns(F)
    if ipc:
        ps, _ = util.run_fn(F, ipc[0], summarise_pure=False)
        good = bool(ps)
        for p in ps:
            both = [v for t, v in p.cons if t[0] == 'discr' and t[1][0] in ('first', 'last')]
            if both == [1, 1]:
                cs = [e for e in p.eff if e[0] == 'call' and e[1] in ('std::cmp::PartialEq::eq',)]
                if not (len(cs) == 1 and p.ret == cs[0][-1]) and not (p.ret[0] == 'bin' and p.ret[1] == 'Eq'):
                    good = False
            elif p.ret != ('bool', False):
                good = False
        ctx.ob("C16.close", "is_part_closed", good, "first == last when both exist, false otherwise", site=ctx.site_of(F, ipc[0]["def"]),
               key="C16.close|is_part_closed")
    else:
        ctx.ob("C16.close", "is_part_closed", True, "closedness test inlined (checked through the push guard)", trivial=True)
    # --- area -----------------------------------------------------------------------------------
    rt = util.orientation_fns(F)
    if not rt:
        ctx.missing("C16.area", "orientation function")
    else:
        ps, _ = util.run_fn(F, rt[0])
        asite = ctx.site_of(F, rt[0]["def"])
        good = len(ps) == 2
        desc = ""
        for p in ps:
            lt = [(t, v) for t, v in p.cons if t[0] == 'bin' and t[1] == 'Lt' and t[3] == ('f64', '0.0')]
            if len(lt) != 1:
                good = False
                continue
            t, v = lt[0]
            neg = (v != 0) if isinstance(v, int) else True
            if util.variant_name(p.ret) != ('InnerRing' if neg else 'OuterRing'):
                good = False
                desc = "negative area does not map to the inner ring"
            area = t[2]
            div = 1.0
            if area[0] == 'bin' and area[1] == 'Div' and area[3][0] == 'f64':
                div = float(area[3][1])
                area = area[2]
            if div <= 0 or area[0] != 'sum' or area[1][0] != 'windows' or area[1][2] != ('int', 2):
                good = False
                desc = "orientation is not a sum over consecutive vertex pairs divided by a positive constant"
                continue
            sym = {}
            for e in p.eff:
                if e[0] == 'call' and e[1] in ('record::traits::HasXY::x', 'record::traits::HasXY::y'):
                    a = e[3][0]
                    idx = None
                    if a[0] == 'ref' and a[1][1] and a[1][1][-1][0] in ('i', 'ci'):
                        last = a[1][1][-1]
                        idx = last[1][1] if last[0] == 'i' and last[1][0] == 'int' else (last[1] if last[0] == 'ci' else None)
                    if idx in (0, 1):
                        sym[e[-1]] = "%s%d" % (e[1][-1], idx)
            pl = poly(area[2], sym)
            if pl is None:
                good = False
                desc = "per-edge term is not a polynomial in the four coordinates"
                continue
            k = pl.get(('x1', 'y1'), 0)
            rest = p_add(pl, {('x1', 'y1'): k, ('x0', 'y0'): -k}, -1)
            c = rest.get(('x1', 'y0'), 0)
            ok = c > 0 and rest == {('x1', 'y0'): c, ('x0', 'y1'): -c} and pl.get(('x0', 'y0'), 0) == -k
            if not ok:
                good = False
            desc = desc or "per-edge term = %s" % " ".join("%+g*%s" % (cf, "*".join(m)) for m, cf in sorted(pl.items()))
        ctx.ob("C16.area", "shoelace identity", good, desc, site=asite, key="C16.area|polynomial")
        ctx.ob("C16.area", "sign convention", good, "negative => InnerRing, otherwise OuterRing", site=asite, key="C16.area|sign", trivial=True)
    # --- patch ----------------------------------------------------------------------------------
    wp = F.inherent_method("record::multipatch::Multipatch", "with_parts")
    if not wp:
        ctx.missing("C16.patch", "Multipatch::with_parts")
        return
    ps, _ = util.run_fn(F, wp[0], inline=lambda g, t: not g["def"].endswith(("::shrink", "::grow")), summarise_pure=False)
    adt = F.adts.get("record::multipatch::Patch")
    kinds = {v["vi"]: v["name"] for v in adt["variants"]} if adt else {}
    seen = {}
    first_loop_ok = True
    for p in ps:
        if p.status != 'return':
            continue
        loops = [e for e in p.eff if e[0] == 'loop']
        if not loops:
            continue
        lp = loops[0]
        it = lp[2].get('iter')
        if not (it and it[0] == 'iter' and it[2] == 'mut'):
            first_loop_ok = False
        for b in lp[3]:
            # the kinds this alternative of the body stands for: one variant, or (arms merged with `|`, a helper returning
            # Option<&mut Vec>) every variant the discriminant tests have not excluded
            possible = None
            for t, v in b['cons']:
                if t[0] == 'discr' and t[1][0] == 'load' and t[1][1][0][0] == 'T' and \
                        t[1][1][0][1][0] in ('elemref', 'elem') and not t[1][1][1]:
                    cur = {kinds.get(v)} if isinstance(v, int) else (set(kinds.values()) - {kinds.get(x) for x in v[1]})
                    possible = cur if possible is None else (possible & cur)
            if not possible:
                continue
            pushes = [e for e in b['eff'] if e[0] == 'push']
            muts = [e for e in b['eff'] if e[0] in ('mutate',) or (e[0] == 'store' and e[1][0][0] == 'T')]
            for kind in sorted(possible):
                good_push = all(e[2][0] == 'load' and e[2][1][1][-1] == ('i', ('int', 0)) and
                                (e[1][1][-2:] == (('v', kind), ('f', '0')) or e[1][1][-1] == ('vp', '0'))
                                and e[2][1][1][:-1] == e[1][1] for e in pushes)
                seen.setdefault(kind, []).append((len(pushes), good_push, [m for m in muts if m[0] == 'mutate']))
    ring_kinds = {'OuterRing', 'InnerRing', 'FirstRing', 'Ring'}
    for vi, name in sorted(kinds.items()):
        alts = seen.get(name, [])
        if name in ring_kinds:
            ok = bool(alts) and any(n == 1 for n, g, m in alts) and all(n <= 1 and g and not m for n, g, m in alts)
            msg = "closed like a polygon ring (push of its first vertex when open): alternatives %s" % [n for n, g, m in alts]
        else:
            ok = bool(alts) and all(n == 0 and not m for n, g, m in alts)
            msg = "left untouched: alternatives %s" % [n for n, g, m in alts]
        ctx.ob("C16.patch", name, ok and first_loop_ok, msg, site=ctx.site_of(F, wp[0]["def"]), key="C16.patch|%s" % name)
