"""C10 — a writer holds one shape type; a rejected write changes nothing (E3 + E4)."""
from .. import absint, mir, util, writer_model as wm
from ..absint import is_agg, agg_field
from .C09 import build


def field_assign_sites(F, adt, field):
    """functions (non-test) containing an assignment to <place>.field of the given ADT"""
    out = []
    for f in F.identity_fns():
        for bi, b in enumerate(f["blocks"]):
            if b["cleanup"]:
                continue
            for s in b["stmts"]:
                if s["k"] != "assign":
                    continue
                pr = s["p"]["proj"]
                for i, e in enumerate(pr):
                    if e["k"] == "field" and e["name"] == field and e.get("adt") == adt and i == len(pr) - 1:
                        out.append((f, bi))
    return out


def guard_rule(ctx, F):
    """C10.guard: which offered types write_shape accepts, decided over all pairs of type codes.  The tests the function makes
    on the file's type and on the offered type (directly, through == / !=, or through private helpers followed into their
    bodies) are evaluated for each of the 13 x 14 pairs (file type not null): a pair of different types must not satisfy the
    tests of any accepting path, a pair of equal types must not satisfy those of a path returning the mismatch error."""
    from .C03 import _ev
    ctx.rule("C10.guard", "write_shape accepts a later shape exactly when its type is the file's: over all 13 x 14 pairs of type "
                          "codes, no pair of different types satisfies the type tests of an accepting path and no pair of equal "
                          "types those of a path returning the mismatch error", floor=2)
    fs = F.inherent_method("writer::ShapeWriter", "write_shape")
    codes = sorted((util.shapetype_discr(F) or {}).values())
    if not fs or not codes:
        ctx.missing("C10.guard", "ShapeWriter::write_shape / ShapeType")
        return
    f = fs[0]
    site = ctx.site_of(F, f["def"])
    try:
        ps, _ = util.run_fn(F, f, summarise_pure=False,
                            inline=lambda g2, t: any(x in mir.callee_decl(t) for x in ("shapetype", "ShapeType", "PartialEq")) or
                            mir.callee_decl(t).startswith("writer::ShapeWriter"))     # the guard may sit in a private method
    except absint.Unanalysable as e:
        ctx.unanalysable("C10.guard", f["def"], str(e))
        return
    A = ('load', (('T', ('param', 1)), (('f', 'header'), ('f', 'shape_type'))))
    name = {v: k for k, v in (util.shapetype_discr(F) or {}).items()}
    wrong_accept, wrong_reject, undecided = None, None, 0
    nacc = nrej = 0
    for p in ps:
        if p.status != 'return':
            continue
        acc = is_agg(p.ret, None, 'Ok')
        rej = is_agg(p.ret, None, 'Err') and is_agg(agg_field(p.ret, '0'), None, 'MismatchShapeType')
        if not acc and not rej:
            continue
        B = None
        for t, c in p.cons:
            for x in absint.subterms(t):
                if isinstance(x, tuple) and x and x[0] == 'ret' and isinstance(x[-1], str) and x[-1].endswith('shapetype'):
                    B = x
        atoms = [(t, c) for t, c in p.cons if any(x == A or (B is not None and x == B) for x in absint.subterms(t))]
        if B is None or not atoms:
            if acc and any(t == ('discr', A) and c == 0 for t, c in p.cons):
                continue                                   # the first write: nothing to compare with
            if acc:
                wrong_accept = wrong_accept or ("any", "any (the path tests neither type)")
            continue
        if acc:
            nacc += 1
        else:
            nrej += 1
        for a in codes:
            if a == 0:
                continue
            for b in codes:
                env = {A: a, B: b, ('discr', A): a, ('discr', B): b}
                ok = True
                for t, c in atoms:
                    x = _ev(t, env)
                    if x is None:
                        ok = None
                        break
                    want = (x == c) if isinstance(c, int) else (x not in c[1]) if isinstance(c, tuple) and c and c[0] == 'not' else None
                    if want is None:
                        ok = None
                        break
                    if not want:
                        ok = False
                        break
                if ok is None:
                    undecided += 1
                    break
                if ok and acc and a != b and wrong_accept is None:
                    wrong_accept = (name.get(a, a), name.get(b, b))
                if ok and rej and a == b and wrong_reject is None:
                    wrong_reject = (name.get(a, a), name.get(b, b))
            else:
                continue
            break
    ctx.ob("C10.guard", "no other type accepted", wrong_accept is None and undecided == 0 and nacc > 0,
           "%d accepting later-write path(s): their type tests hold for equal types only" % nacc if wrong_accept is None and not undecided else
           ("a %s is accepted into a file of %s" % (wrong_accept[1], wrong_accept[0]) if wrong_accept else
            "%d path(s) whose type tests cannot be evaluated (fail closed)" % undecided), site=site, key="C10.guard|accept")
    ctx.ob("C10.guard", "the same type is never refused", wrong_reject is None and nrej > 0,
           "%d mismatch path(s): their type tests fail for equal types" % nrej if wrong_reject is None else
           "a %s offered to a file of %s is refused as a mismatch" % (wrong_reject[1], wrong_reject[0]), site=site, key="C10.guard|reject")


def run(ctx):
    guard_rule(ctx, ctx.facts("default"))
    ctx.delegate("C06", ["C06.concrete"], "C10.types",
                 "the type a shape is offered as is its own: S::shapetype() names the variant of S for each of the 13 concrete types, "
                 "so two different types never compare equal in the guard", floor=13)
    F = ctx.facts("default")
    ctx.rule("C10.first", "the first-write path stores S::shapetype() into the header's shape type; no other assignment to that "
                          "field exists in the crate (who-writes)", floor=2)
    ctx.rule("C10.reject", "on every path of write_shape that returns the mismatch error there is no operation on any destination "
                           "and no store through self; the error is {requested: the file's type, actual: S::shapetype()}", floor=1)
    ctx.rule("C10.identity", "typestate: a rejected write is the identity on every reachable abstract writer state", floor=2)
    ctx.rule("C10.table", "Writer::write_shape_and_record: the table write happens only after the shape write succeeded "
                          "(fault enumeration: when write_shape fails, no path reaches the row write)", floor=2)
    W, tr = build(ctx, F, "C10.first")
    if W is None:
        return
    fw = tr['write_shape:fn']
    site = ctx.site_of(F, fw["def"])
    first = [t for t in tr['write_shape'] if t['class'] == 'ok' and t['guards']['type_null'] is True]
    same = [t for t in tr['write_shape'] if t['class'] == 'ok' and t['guards']['type_null'] is False]
    mism = [t for t in tr['write_shape'] if t['class'] == 'mismatch']
    ok = bool(first)
    why = []
    for t in first:
        v = t['stores'].get((W.header_field, 'shape_type'))
        calls = [e for e in t['path'].eff if e[0] == 'call' and e[1] == 'record::HasShapeType::shapetype']
        if v is None or not any(v == c[-1] for c in calls):
            ok = False
            why.append("first-write path stores %s" % (absint.term_str(v) if v else None))
    for t in same:
        if (W.header_field, 'shape_type') in t['stores']:
            ok = False
            why.append("a later write overwrites the file's type")
    ctx.ob("C10.first", "first write fixes the type", ok, "; ".join(why) or "%d first-write paths store S::shapetype(); %d later-write "
           "paths leave it" % (len(first), len(same)), site=site, key="C10.first|write_shape")
    sites = field_assign_sites(F, "header::Header", "shape_type")
    owners = sorted(set(f["def"] for f, _ in sites))
    # a private helper that only write_shape (or another such helper) calls is part of write_shape
    allowed = {fw["def"]}
    refs = {}
    for h in F.identity_fns():
        if h.get("krate") != F.crate:
            continue
        for r in util.fn_refs(h):
            g = util.local_fn(F, r)
            if g is not None:
                refs.setdefault(g["def"], set()).add(h["def"].split("::{closure")[0])
    changed = True
    while changed:
        changed = False
        for o in list(refs):
            g_ = util.local_fn(F, o)
            private = g_ is not None and not (g_.get("vis") or "").startswith("Public") and not g_.get("impl_trait")
            if o not in allowed and private and refs.get(o) and refs[o] <= allowed:
                allowed.add(o)
                changed = True
    ctx.ob("C10.first", "who writes Header.shape_type", bool(owners) and set(owners) <= allowed and fw["def"] in allowed,
           "assignments to Header.shape_type occur in %s" % owners, site=site, key="C10.first|who-writes")

    # --- reject -------------------------------------------------------------------------------
    if not mism:
        ctx.ob("C10.reject", "mismatch path", False, "write_shape has no path returning MismatchShapeType", site=site)
    for i, t in enumerate(mism):
        p = t['path']
        err = agg_field(p.ret, '0')
        req, act = agg_field(err, 'requested'), agg_field(err, 'actual')
        calls = [e for e in p.eff if e[0] == 'call' and e[1] == 'record::HasShapeType::shapetype']
        fields_ok = req == wm.field_load(W.header_field, 'shape_type') and any(act == c[-1] for c in calls)
        effects = [e for e in absint.flat_effects(p.eff) if e[0] in ('io', 'store', 'loop', 'push', 'mutate') or
                   (e[0] == 'call' and e[1] != 'record::HasShapeType::shapetype')]
        ctx.ob("C10.reject", "mismatch path #%d" % (i + 1), fields_ok and not effects and t['guards']['type_null'] is False,
               "requested=%s actual=%s; %d effects on the path (%s)" % (absint.term_str(req), absint.term_str(act), len(effects),
                                                                        [e[0] + ':' + str(e[1])[:40] for e in effects][:4]),
               site=site, key="C10.reject|write_shape")
    # --- typestate ----------------------------------------------------------------------------
    for has_shx in (False, True):
        seen, findings, n = wm.explore(W, tr, has_shx)
        w7 = [(m, h) for inv, m, h in findings if inv == 'W7']
        ctx.ob("C10.identity", "%s index: %d states" % ("with" if has_shx else "without", len(seen)), not w7,
               w7[0][0] + " — history: " + "; ".join(w7[0][1]) if w7 else "rejected writes are the identity in all %d states" % len(seen),
               site=site, key="C10.identity|%s" % has_shx)
    # --- table --------------------------------------------------------------------------------
    fs = F.inherent_method("writer::Writer", "write_shape_and_record")
    if not fs:
        ctx.missing("C10.table", "Writer::write_shape_and_record")
        return
    f = fs[0]
    ps, I = util.run_fn(F, f, inline=lambda g, t: False)
    wsites = [s for s, w in I.fallible_sites if 'write_shape' in w]
    rsites = [s for s, w in I.fallible_sites if 'write_record' in w]
    ctx.ob("C10.table", "both writes present", len(set(wsites)) == 1 and len(set(rsites)) == 1,
           "write_shape sites %d, write_record sites %d" % (len(set(wsites)), len(set(rsites))), site=ctx.site_of(F, f["def"]))
    good = bool(wsites)
    for s in set(wsites):
        ps2, _ = util.run_fn(F, f, inline=lambda g, t: False, fail_site=s)
        for p in ps2:
            calls = [e for e in absint.flat_effects(p.eff) if e[0] == 'call']
            if any(e[4] == s for e in calls) and any('write_record' in (e[2] or e[1]) for e in calls):
                good = False
    order_ok = True
    for p in ps:
        calls = [e for e in absint.flat_effects(p.eff) if e[0] == 'call']
        names = [('shape' if 'write_shape' in (e[2] or e[1]) else 'row' if 'write_record' in (e[2] or e[1]) else None) for e in calls]
        names = [n for n in names if n]
        if names and names != ['shape', 'row']:
            order_ok = False
    ctx.ob("C10.table", "row only after accepted shape", good and order_ok,
           "a failing write_shape %s the row write; order on the success path %s" % ("never reaches" if good else "still reaches",
                                                                                   "shape, row" if order_ok else "differs"),
           site=ctx.site_of(F, f["def"]), key="C10.table|write_shape_and_record")
