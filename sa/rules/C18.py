"""C18 — a shape's announced byte size equals what its serialisation emits (E2 affine identities)."""
from .. import absint, affine, util
from ..absint import is_agg, agg_field


def run(ctx):
    F = ctx.facts("default")
    sp = util.spec()
    ctx.rule("C18.poly", "for each writable type the linear form of size_in_bytes() over (#parts, Σ part lengths) equals, "
                         "coefficient by coefficient, the byte count of the effect summary of write_to()", floor=13)
    ctx.rule("C18.spec", "that linear form also equals the ESRI size formula of the type with the M block present "
                         "(const + k·parts + p·points)", floor=13)
    ctx.rule("C18.reclen", "write_shape stores (size_in_bytes() + 4) / 2 as the record's content length and emits exactly "
                           "the 4-byte type code before the shape's own bytes", floor=3)
    ctx.assumptions += ["a `for` loop over a slice / Vec iterator runs once per element",
                        "usize arithmetic in size_in_bytes does not overflow (counts < 2^31)"]
    impls = F.trait_impls("record::WritableShape")
    if len(impls) < 13:
        ctx.missing("C18.poly", "13 impls of WritableShape (found %d)" % len(impls))
    for imp in impls:
        ty = imp["self_ty"]
        name = util.alias(ty)
        fs = {m["name"]: F.fns.get(m["key"]) for m in imp["methods"]}
        fsz, fw = fs.get("size_in_bytes"), fs.get("write_to")
        if not fsz or not fw:
            ctx.missing("C18.poly", "%s::size_in_bytes / write_to" % name)
            continue
        try:
            ps, _ = util.run_fn(F, fsz)
            forms = []
            for p in ps:
                if p.status != 'return':
                    continue
                forms.append(affine.lin(p.ret))
            pw, _ = util.run_fn(F, fw)
            emitted = []
            for p in pw:
                if p.status == 'return' and is_agg(p.ret, None, 'Ok'):
                    emitted.append(affine.bytes_of(p.eff, 'write'))
        except (affine.NotAffine, absint.Unanalysable) as e:
            ctx.unanalysable("C18.poly", name, str(e))
            continue
        ok = bool(forms) and bool(emitted) and all(affine.eq(a, b) for a in forms for b in emitted)
        ctx.ob("C18.poly", name, ok,
               "size_in_bytes = %s ; write_to emits %s" % (" | ".join(map(affine.show, forms)), " | ".join(map(affine.show, emitted))),
               site=ctx.site_of(F, fsz["def"]), key="C18.poly|%s" % name)
        # against the spec formula
        ssz = sp["sizes"].get(name)
        if ssz is None:
            ctx.ob("C18.spec", name, False, "no ESRI size formula for %s" % name)
            continue
        c = ssz["const"] + ssz.get("m", {}).get("const", 0)
        kparts = ssz["parts"]
        kpoints = ssz["points"] + ssz.get("m", {}).get("points", 0)
        good = bool(forms)
        why = []
        for a in forms:
            cc = a.get((), 0)
            lens = {k: v for k, v in a.items() if k != () and k[0] == 'len'}
            sums = {k: v for k, v in a.items() if k != () and k[0] == 'sum'}
            other = {k: v for k, v in a.items() if k != () and k[0] not in ('len', 'sum')}
            if name.startswith("Multipoint"):
                got = (cc, 0, sum(lens.values()))
                shape_ok = len(lens) <= 1 and not sums and not other
            elif name.startswith("Point"):
                got = (cc, 0, 0)
                shape_ok = not lens and not sums and not other
            else:
                got = (cc, sum(lens.values()), sum(sums.values()))
                shape_ok = len(lens) <= 1 and len(sums) <= 1 and not other
            if not shape_ok or got != (c, kparts, kpoints):
                good = False
            why.append("library: const %d, per part %d, per point %d" % got)
        ctx.ob("C18.spec", name, good, "%s; ESRI: const %d, per part %d, per point %d" % ("; ".join(why), c, kparts, kpoints),
               site=ctx.site_of(F, fsz["def"]), key="C18.spec|%s" % name)

    # --- record length in write_shape ---------------------------------------------------------
    fs = F.inherent_method("writer::ShapeWriter", "write_shape")
    if not fs:
        ctx.missing("C18.reclen", "ShapeWriter::write_shape")
        return
    f = fs[0]
    ps, _ = util.run_fn(F, f)
    succ = [p for p in ps if p.status == 'return' and is_agg(p.ret, None, 'Ok')]
    if not succ:
        ctx.ob("C18.reclen", "success paths", False, "write_shape has no successful path")
    n_ok = 0
    for p in succ:
        ios = [e for e in absint.flat_effects(p.eff) if e[0] == 'io' and e[1] == 'write']
        szcalls = [e for e in p.eff if e[0] == 'call' and e[1] == 'record::WritableShape::size_in_bytes']
        wcalls = [e for e in p.eff if e[0] == 'call' and e[1] == 'record::WritableShape::write_to']
        # the content-length primitive: second BE i32 of the record header = writes just before the LE type code
        good = len(szcalls) == 1 and len(wcalls) == 1
        detail = ""
        if good:
            size = szcalls[0][-1]
            want = ('bin', 'Div', ('bin', 'Add', size, ('int', 4), 'usize'), ('int', 2), 'usize')
            be = [e for e in ios if e[3]['endian'] == 'BigEndian' and e[3]['ty'] == 'i32']
            vals = [affine.strip_sites(e[4]) for e in be]
            target = affine.strip_sites(('cast', want, 'usize', 'i32'))
            hits = [v for v in vals if v == target]
            # emission order on the shp destination: ..., BE recnum, BE reclen, LE code(4 bytes), shape bytes
            seq = []
            for e in p.eff:
                if e[0] == 'io' and e[1] == 'write':
                    seq.append(('prim', e))
                elif e[0] == 'call' and e[1] == 'record::WritableShape::write_to':
                    seq.append(('shape', e))
            idx = [i for i, (k, e) in enumerate(seq) if k == 'shape']
            order_ok = False
            if idx:
                i = idx[0]
                if i >= 3:
                    code, rl, rn = seq[i - 1][1], seq[i - 2][1], seq[i - 3][1]
                    order_ok = (code[3]['ty'] == 'i32' and code[3]['endian'] == 'LittleEndian'
                                and rl[3]['endian'] == 'BigEndian' and affine.strip_sites(rl[4]) == target
                                and rn[3]['endian'] == 'BigEndian'
                                and code[2] == rl[2] == rn[2] == seq[i][1][3][1])
            good = bool(hits) and order_ok
            detail = "content length written = %s; expected ((size_in_bytes + 4) / 2) as i32; order recnum,reclen,code,shape on one destination: %s" % (
                [absint.term_str(v) for v in vals][-2:], order_ok)
        if good:
            n_ok += 1
        ctx.ob("C18.reclen", "write_shape success path #%d" % (succ.index(p) + 1), good,
               detail or "size_in_bytes called %d times, write_to %d times" % (len(szcalls), len(wcalls)),
               site=ctx.site_of(F, f["def"]), key="C18.reclen|write_shape")
    ctx.ob("C18.reclen", "count", n_ok == len(succ) and n_ok >= 2, "%d of %d success paths store the right length" % (n_ok, len(succ)),
           site=ctx.site_of(F, f["def"]), key="C18.reclen|write_shape|all", trivial=True)
