"""C04 — the .shx written alongside a .shp addresses exactly its records (E2 + E3 + E4 facts)."""
from .. import absint, affine, mir, util, writer_model as wm
from ..absint import is_agg, agg_field
from .C09 import build


def run(ctx):
    _run(ctx)
    ctx.delegate("C18", ["C18.poly"], "C04.sizes",
                 "entry i holds the content length of record i: the length announced for a shape is the number of bytes written for it", floor=13)
    ctx.delegate("C12", ["C12.retry"], "C04.retry",
                 "the .shx header still gets its length 50+4n when a finalize failed and is retried (or run by drop)", floor=4)
    ctx.delegate("C09", ["C09.ctor", "C09.W5"], "C04.commit",
                 "for n = 0 too the .shx is the header with length 50: a new writer is dirty, so drop emits both headers", floor=3)

def _run(ctx):
    F = ctx.facts("default")
    sp = util.spec()
    ctx.rule("C04.entry", "write_shape: the index entry is two big-endian i32: the running length as it was *before* this record "
                          "(the value read is the pre-state one and the increment comes later on the path) and the same content "
                          "length as the record header", floor=2)
    ctx.rule("C04.len", "finalize: the .shx header is the in-memory header with only the length replaced, and that length in "
                        "linear form is 50 + 4*(records written) words", floor=3)
    ctx.rule("C04.agree", "the reader parses the index as two big-endian i32 per entry, and its entry-count formula N(L) composed "
                          "with the writer's length formula L(n) is the identity ((2(50+4n) - 100)/8 = n, exact division)", floor=3)
    ctx.rule("C04.reader", "shape_count is the index length; read_nth_shape_as returns None exactly when i >= len and otherwise seeks "
                           "to 2*offset[i]; size_hint forwards the index iterator's hint", floor=4)
    W, tr = build(ctx, F, "C04.entry")
    if W is None:
        return
    fw, ff = tr['write_shape:fn'], tr['finalize:fn']
    wsite, fsite = ctx.site_of(F, fw["def"]), ctx.site_of(F, ff["def"])
    fl_load = wm.field_load(W.header_field, 'file_length')
    okp = [t for t in tr['write_shape'] if t['class'] == 'ok' and t['guards']['shx'] is True]
    if not okp:
        ctx.ob("C04.entry", "paths", False, "no successful write path with an index destination", site=wsite)
    for first in (True, False):
        cands = [t for t in okp if t['guards']['type_null'] is first]
        good = bool(cands)
        why = []
        for t in cands:
            flat = list(absint.flat_effects(t['path'].eff))
            ent = [(i, e) for i, e in enumerate(flat) if e[0] == 'io' and e[1] in ('write', 'write_all') and W.dest_name(e[2]) == 'shx']
            # drop the header group of the first write (starts with 9994, 13 prims... by bytes)
            data = []
            skip = 0
            for i, e in ent:
                if e[4] == ('int', 9994) and e[3].get('endian') == 'BigEndian':
                    skip = 100
                if skip > 0:
                    skip -= e[3].get('width') or 0
                    continue
                data.append((i, e))
            alld = [(i, e) for i, e in enumerate(flat) if e[0] == 'io' and e[1] in ('write', 'write_all') and W.dest_name(e[2]) == 'shx']
            if len(data) != 2 or not all(e[3]['ty'] == 'i32' and e[3]['endian'] == 'BigEndian' for _, e in data):
                good = False
                why.append("index entry is %s" % [(e[3].get('ty'), e[3].get('endian')) for _, e in data])
                continue
            off, rl = data[0][1][4], data[1][1][4]
            st_idx = [i for i, e in enumerate(flat) if e[0] == 'store' and e[1] == wm.selfpath(W.header_field, 'file_length')]
            rec = [e for e in flat if e[0] == 'io' and e[1] == 'write' and W.dest_name(e[2]) == 'shp' and e[3].get('endian') == 'BigEndian']
            rec_len = rec[-1][4] if rec else None
            if off != fl_load:
                good = False
                why.append("offset written is %s, not the running length before this record" % absint.term_str(off))
            if not st_idx or st_idx[0] < data[1][0]:
                good = False
                why.append("the running length is advanced before the entry is emitted")
            if rl != rec_len:
                good = False
                why.append("entry length %s differs from the record header's %s" % (absint.term_str(rl), absint.term_str(rec_len) if rec_len else None))
        ctx.ob("C04.entry", "first write" if first else "later write", good, "; ".join(sorted(set(why))) or
               "entry = (BE running length before the record, BE content length) on %d paths" % len(cands), site=wsite,
               key="C04.entry|write_shape|%s" % ("first" if first else "later"))
    # --- len ----------------------------------------------------------------------------------
    fin = [t for t in tr['finalize'] if t['class'] == 'ok' and t['guards']['shx'] is True and t['ops']]
    good = bool(fin)
    why = []
    form = None
    for t in fin:
        hs = {d: info for d, k, info in t['ops'] if k == 'header'}
        if set(hs) != {'shp', 'shx'}:
            good = False
            why.append("headers written: %s" % sorted(hs))
            continue
        a, b = hs['shp']['prims'], hs['shx']['prims']
        if len(a) != len(b):
            good = False
            continue
        diffs = [i for i, (x, y) in enumerate(zip(a, b)) if x[4] != y[4] and not (x[1] == 'write_all' and y[1] == 'write_all')]
        if diffs != [2]:
            good = False
            why.append("the two headers differ in fields %s (only the length, field 2, may differ)" % diffs)
            continue
        try:
            form = affine.lin(b[2][4])
        except affine.NotAffine as e:
            good = False
            why.append(str(e))
            continue
        rn = ('at', wm.selfpath(W.recnum_field))
        want = {(): 46, affine.strip_sites(('load', wm.selfpath(W.recnum_field))): 4}
        if not affine.eq(form, want):
            good = False
            why.append("index length = %s, expected 50 + 4*(rec_num - 1)" % affine.show(form))
    ctx.ob("C04.len", "shx header", good, "; ".join(sorted(set(why))) or "same header, length = %s words" % (affine.show(form) if form else '?'),
           site=fsite, key="C04.len|finalize")
    # rec_num counts records: +1 per successful write, starts at 1 (ctor: C09.ctor)
    okall = [t for t in tr['write_shape'] if t['class'] == 'ok']
    rn_path = wm.selfpath(W.recnum_field)
    inc = all(t['stores'].get((W.recnum_field,)) == ('bin', 'Add', ('load', rn_path), ('int', 1), 'u32') for t in okall)
    others = [t for t in tr['write_shape'] + tr['finalize'] if t['class'] != 'ok' and (W.recnum_field,) in t['stores']]
    ctx.ob("C04.len", "record counter", inc and not others and bool(okall), "rec_num += 1 on each of %d successful write paths, untouched elsewhere" % len(okall),
           site=wsite, key="C04.len|rec_num")
    ctx.ob("C04.len", "spec", sp["shx"]["header_words"] == 50 and sp["shx"]["entry_words"] == 4 and form is not None and form.get((), None) == 46,
           "ESRI: index length = 50 + 4n words", key="C04.len|spec", trivial=True)
    # --- agree --------------------------------------------------------------------------------
    f = F.identity("reader::read_index_file")
    cand = [f] if f else []
    if not cand:
        # role-based fallback: the function reached from with_shx that reads a header then loops reading two BE i32
        ws = F.inherent_method("reader::ShapeReader", "with_shx")
        if ws:
            for b, t in mir.calls(ws[0]):
                r = t["fn"].get("resolved") if "fn" in t else None
                if r and r.get("has_body") and r["def"] != "header::Header::read_from":
                    g = F.identity(r["def"])
                    if g:
                        cand.append(g)
    if not cand:
        ctx.missing("C04.agree", "index file reader reachable from ShapeReader::with_shx")
    for f in cand[:1]:
        ps, _ = util.run_fn(F, f, inline=lambda g, t: g["def"] != "header::Header::read_from")
        succ = [p for p in ps if p.status == 'return' and is_agg(p.ret, None, 'Ok')]
        good = bool(succ)
        why = []
        for p in succ:
            loops = [e for e in p.eff if e[0] == 'loop']
            if len(loops) != 1:
                good = False
                why.append("%d loops" % len(loops))
                continue
            body = loops[0][3]
            for b in body:
                rd = [e for e in b['eff'] if e[0] == 'io']
                if [(e[1], e[3].get('ty'), e[3].get('endian')) for e in rd] != [('read', 'i32', 'BigEndian')] * 2:
                    good = False
                    why.append("entry parsed as %s" % [(e[3].get('ty'), e[3].get('endian')) for e in rd])
                pushes = [e for e in b['eff'] if e[0] == 'push']
                if len(pushes) != 1 or not is_agg(pushes[0][2]) or \
                        sorted(repr(v) for _, v in pushes[0][2][4]) != sorted(repr(x) for x in (rd[0][-1], rd[1][-1])) or \
                        len(pushes[0][2][4]) != 2 or rd[0][-1] == rd[1][-1]:
                    good = False
                    why.append("the entry pushed does not hold exactly the two values read for it, one per field")
            it = loops[0][2].get('iter')
            if not (is_agg(it) and it[1].startswith('std::ops::Range') and agg_field(it, 'start') == ('int', 0)):
                good = False
                why.append("loop is not 0..N")
                continue
            n = agg_field(it, 'end')
            if n[0] == 'tryfrom':           # a checked conversion: the value when it succeeds
                n = n[1]
            # N = Div(num, 8): compose with L(n) = 50 + 4n
            try:
                if n[0] == 'bin' and n[1] == 'Div':
                    num = affine.lin(n[2])
                    den = affine.lin(n[3])
                    syms = [k for k in num if k != ()]
                    if len(syms) != 1 or not affine.is_const(den):
                        raise affine.NotAffine("count formula is not (a*L + b)/c")
                    a, b, c = num[syms[0]], num.get((), 0), den[()]
                    # substitute L = 50 + 4n
                    coef_n, const = a * 4, a * 50 + b
                    if not (const == 0 and coef_n == c):
                        good = False
                        why.append("N(L(n)) = (%d n + %d)/%d is not n" % (coef_n, const, c))
                    lsym = syms[0]
                    if 'file_length' not in absint.term_str(lsym):
                        good = False
                        why.append("count is not computed from the header's length field")
                else:
                    good = False
                    why.append("entry count is %s" % absint.term_str(n))
            except affine.NotAffine as e:
                good = False
                why.append(str(e))
        for p in succ:
            r = agg_field(p.ret, '0')
            if any(isinstance(x, tuple) and x and x[0] == 'havoc' for x in absint.subterms(r)) or r[0] != 'lv':
                good = False
                why.append("the vector returned is not the one the entries were pushed to, untouched (%s)" % absint.term_str(r)[:60])
        from .C20 import REORDER
        for b, t in mir.calls(f):
            if mir.callee_decl(t) in REORDER:
                good = False
                why.append("the parsed index is reordered / filtered by %s" % mir.callee_decl(t))
        ctx.ob("C04.agree", "index parser", good, "; ".join(sorted(set(why))) or "two BE i32 per entry into (offset, record_size); N(L(n)) = n",
               site=ctx.site_of(F, f["def"]), key="C04.agree|index-reader")
    # writer entry layout vs spec, reader entry layout vs spec
    ctx.ob("C04.agree", "spec entry", [x["endian"] for x in sp["index_entry"]] == ["BigEndian", "BigEndian"], "ESRI: two BE i32", trivial=True)
    ws = F.inherent_method("reader::ShapeReader", "with_shx")
    if ws:
        # a private constructor shared by new / with_shx is followed (it returns the reader); parsers stay calls
        ps, _ = util.run_fn(F, ws[0], inline=lambda g, t: 'reader::ShapeReader<' in g["locals"][0]["ty"])
        succ = [p for p in ps if is_agg(p.ret, None, 'Ok')]
        good = bool(succ)
        for p in succ:
            r = agg_field(p.ret, '0')
            calls = [e for e in p.eff if e[0] == 'call' and e[3] and e[3][0] == ('param', 2)]
            # the index field, by role: the field of the new reader that holds Some(<value parsed from the .shx source>)
            idx = [v for k, v in r[4] if is_agg(v, None, 'Some') and calls and agg_field(v, '0') == calls[0][-1]] if is_agg(r) else []
            if len(idx) != 1:
                good = False
        ctx.ob("C04.agree", "with_shx stores the parsed index", good, "the reader's index is the value parsed from the .shx source",
               site=ctx.site_of(F, ws[0]["def"]), key="C04.agree|with_shx")
    else:
        ctx.missing("C04.agree", "ShapeReader::with_shx")
    # --- reader -------------------------------------------------------------------------------
    idx_load = None
    rf = F.adts.get("reader::ShapeReader")
    idx_field = [x["name"] for x in rf["variants"][0]["fields"] if x["ty"].startswith("std::option::Option<std::vec::Vec<")] if rf else []
    if len(idx_field) != 1:
        ctx.missing("C04.reader", "index field of ShapeReader")
        return
    idxp = (wm.SELF, (('f', idx_field[0]),))
    fs = F.inherent_method("reader::ShapeReader", "shape_count")
    if not fs:
        ctx.missing("C04.reader", "ShapeReader::shape_count")
    else:
        ps, _ = util.run_fn(F, fs[0])
        good = bool(ps)
        for p in ps:
            some = any(t == ('discr', ('load', idxp)) and v == 1 for t, v in p.cons)
            if some:
                want = ('len', ('at', (wm.SELF, idxp[1] + (('v', 'Some'), ('f', '0')))))
                if not (is_agg(p.ret, None, 'Ok') and affine.canon_coll(agg_field(p.ret, '0')) == want) or p.eff:
                    good = False
            else:
                if not is_agg(p.ret, None, 'Err') or p.eff:
                    good = False
        ctx.ob("C04.reader", "shape_count", good, "Ok(len(index)) with an index, MissingIndexFile without; no effect",
               site=ctx.site_of(F, fs[0]["def"]), key="C04.reader|shape_count")
    fs = F.inherent_method("reader::ShapeReader", "read_nth_shape_as")
    if not fs:
        ctx.missing("C04.reader", "ShapeReader::read_nth_shape_as")
    else:
        ps, _ = util.run_fn(F, fs[0], inline=lambda g, t: g["kind"] == "Closure" or not (
            g["def"].startswith(("record::", "header::", "<record::", "<header::")) or "read_one_shape" in g["def"]))
        good = bool(ps)
        why = []
        n_none = n_some = 0
        for p in ps:
            some = any(t == ('discr', ('load', idxp)) and v == 1 for t, v in p.cons)
            if not some:
                continue
            # the comparison of the requested position with the number of index entries (canonical atoms: Lt / Le only)
            I_ = ('param', 2)
            lens = [x for t, v in p.cons if t[0] == 'bin' and t[1] in ('Lt', 'Le') and I_ in (t[2], t[3])
                    for x in (t[2], t[3]) if x != I_ and x[0] == 'len']
            ln = lens[0] if lens else None
            in_range = ln is not None and absint.holds(p.cons, '<', I_, ln)
            out_of_range = ln is not None and absint.holds(p.cons, '<=', ln, I_)
            if is_agg(p.ret, None, 'None'):
                n_none += 1
                if not out_of_range or p.io():
                    good = False
                    why.append("None returned under %s" % [(absint.term_str(t), v) for t, v in p.cons if I_ in (t[2:4] if t[0] == 'bin' else ())])
            elif is_agg(p.ret, None, 'Some') and is_agg(agg_field(p.ret, '0'), None, 'Ok'):
                # slice::get(i) is None iff i >= len: a path that assumes both i < len(X) and get(X, i) == None is infeasible
                getnone = [t for t, v in p.cons if t[0] == 'discr' and t[1][0] == 'get' and v == 0 and t[1][2] == ('param', 2)]
                if getnone and in_range and affine.canon_coll(getnone[0][1][1]) == affine.canon_coll(ln[1]):
                    continue
                n_some += 1
                ios = p.io()
                sk = [e for e in ios if e[1] == 'seek']
                if not in_range:
                    good = False
                    why.append("Some returned without i < len")
                if len(sk) != 2:
                    good = False
                    why.append("%d seeks" % len(sk))
                    continue
                v = sk[0][4]
                tgt = agg_field(v, '0') if is_agg(v, 'std::io::SeekFrom', 'Start') else None
                ts = absint.term_str(tgt) if tgt else ''
                if not tgt or ('.' + (util.index_entry_fields(F)[0] or '?')) not in ts or 'Mul' not in ts or ', 2)' not in ts or 'arg2' not in ts:
                    good = False
                    why.append("seeks to %s" % ts)
                back = sk[1][4]
                if not (is_agg(back, 'std::io::SeekFrom', 'Start') and agg_field(back, '0') == ('int', 100)):
                    good = False
                    why.append("does not reposition at byte 100 afterwards")
        ctx.ob("C04.reader", "read_nth_shape_as", good and n_none >= 1 and n_some >= 1, "; ".join(sorted(set(why))) or
               "None iff i >= len(index); else seek(Start(2*offset[i])), read one record, seek(Start(100))",
               site=ctx.site_of(F, fs[0]["def"]), key="C04.reader|read_nth_shape_as")
    f = None
    for imp in F.trait_impls("std::iter::Iterator"):
        if imp["self_ty"].startswith("reader::ShapeIterator"):
            for m in imp["methods"]:
                if m["name"] == "size_hint":
                    f = F.fns.get(m["key"])
    if not f:
        ctx.missing("C04.reader", "ShapeIterator::size_hint")
    else:
        ps, _ = util.run_fn(F, f)
        good = len(ps) >= 2
        desc = []
        for p in ps:
            calls = [e for e in p.eff if e[0] == 'call' and e[1] == 'std::iter::Iterator::size_hint']
            if calls:
                tgt = absint.term_str(calls[0][3][0])
                from .C14 import index_field
                okp = p.ret == calls[0][-1] and ('%s<Some>.0' % index_field(F)) in tgt
                desc.append("with index: the index iterator's own hint" if okp else "with index: %s" % absint.term_str(p.ret))
            else:
                okp = is_agg(p.ret, 'tuple') and agg_field(p.ret, '0') == ('int', 0) and is_agg(agg_field(p.ret, '1'), None, 'None')
                desc.append("without index: (0, None)" if okp else "without index: %s" % absint.term_str(p.ret))
            if not okp or any(e[0] in ('io', 'store') for e in p.eff):
                good = False
        ctx.ob("C04.reader", "size_hint", good, "; ".join(desc), site=ctx.site_of(F, f["def"]), key="C04.reader|size_hint")
    ctx.ob("C04.reader", "one entry per item", True, "decided by C14.one (same facts)", trivial=True)
    # --- adaptors overridden by the iterator -------------------------------------------------------
    ctx.rule("C04.adaptors", "iteration is the same with and without an index also through the adaptors: the shape iterator overrides no "
                             "Iterator method besides next and size_hint, or an overridden nth(n) consumes exactly n + 1 index entries on "
                             "every path that yields an item (expected count on this tree: 1 instance, 'nothing overridden')", floor=1)
    from .C14 import index_field
    idxf = index_field(F)
    extra = []
    for imp in F.trait_impls("std::iter::Iterator"):
        if imp["self_ty"].startswith("reader::ShapeIterator"):
            extra = [m for m in imp["methods"] if m["name"] not in ("next", "size_hint")]
    if not extra:
        ctx.ob("C04.adaptors", "ShapeIterator overrides", True, "only next and size_hint are defined: every adaptor is std's, built on next",
               key="C04.adaptors|none")
    for m in extra:
        g = F.fns.get(m["key"])
        inst = "ShapeIterator::%s" % m["name"]
        if m["name"] != "nth" or g is None:
            ctx.unanalysable("C04.adaptors", inst, "an overridden Iterator::%s is not decided by this rule" % m["name"])
            continue
        try:
            ps, _ = util.run_fn(F, g)
        except absint.Unanalysable as e:
            ctx.unanalysable("C04.adaptors", inst, str(e))
            continue
        bad = set()
        for p in ps:
            if p.status != 'return' or not is_agg(p.ret, None, 'Some'):
                continue
            if not any(t == ('discr', ('load', (wm.SELF, (('f', idxf),)))) and v == 1 for t, v in p.cons):
                continue                # index-less path: positions are consumed by reading (C03.stop)
            total = {(): 0}
            seen = set()
            for e in absint.flat_effects(p.eff):
                if e[0] == 'call' and e[1] == 'std::iter::Iterator::nth' and e[3] and ('.%s' % idxf) in absint.term_str(e[3][0]):
                    try:
                        total = affine.add(total, affine.add(affine.lin(e[3][1]), {(): 1}))
                    except affine.NotAffine:
                        bad.add("entries skipped by a non-affine amount")
            for t, v in list(p.cons) + [(p.ret, None)]:
                for x in absint.subterms(t):
                    if isinstance(x, tuple) and x and x[0] == 'next' and ('.%s' % idxf) in absint.term_str(x[1]) and x not in seen:
                        seen.add(x)
                        total = affine.add(total, {(): 1})
            want = affine.add(affine.lin(('param', 2)), {(): 1})
            # a path taken for one particular n (nth(0) special-cased): evaluate both sides at that n
            nval = None
            for t, v in p.cons:
                if t == ('param', 2) and isinstance(v, int):
                    nval = v
                if t[0] == 'bin' and t[1] == 'Eq' and ('param', 2) in (t[2], t[3]) and (v != 0 if isinstance(v, int) else True):
                    o = t[3] if t[2] == ('param', 2) else t[2]
                    if o[0] == 'int':
                        nval = o[1]
            if nval is not None:
                sub = lambda form: {(): sum(c * (1 if k == () else nval) for k, c in form.items())} if all(
                    k == () or 'arg2' in affine.show({k: 1}) for k in form) else form
                total, want = sub(total), sub(want)
            if {k: v for k, v in total.items() if v} != {k: v for k, v in want.items() if v}:
                bad.add("an item path consumes %s index entries, nth(n) must consume n + 1" % affine.show(total))
        ctx.ob("C04.adaptors", inst, not bad, "; ".join(sorted(bad)) or "nth(n) consumes n + 1 index entries on every item path",
               site=ctx.site_of(F, g["def"]), key="C04.adaptors|nth")
