"""C11 — a crash at any point of writing never makes a reader see a wrong shape (commit discipline, E4 + E3)."""
from .. import absint, mir, util, writer_model as wm
from ..absint import is_agg, agg_field
from .C09 import build


def run(ctx):
    _run(ctx)
    ctx.delegate("C09", ["C09.W123", "C09.W4", "C09.W6", "C09.W8"], "C11.finalize",
                 "finalize leaves the writer's running state (lengths, counters, cursors) as an undisturbed run has it, so records "
                 "written afterwards land after the committed ones", floor=4)
    ctx.delegate("C09", ["C09.W5"], "C11.commit",
                 "everything written before the last completed finalize is readable: every successful write re-arms finalize", floor=1)
    ctx.delegate("C07", ["C07.arith", "C07.panics"], "C11.torn",
                 "a file cut anywhere (a mixed old/new length included) is read without a panic: the arithmetic on the position "
                 "counter and on lengths from the file cannot overflow", floor=20)
    ctx.delegate("C03", ["C03.stop"], "C11.stop",
                 "without an index the reader stops exactly at the declared length and after a failed read", floor=2)
    ctx.delegate("C13", ["C13.short", "C13.errs"], "C11.reader",
                 "a reader opened on a torn file reports the cut record as an error: no partial read is taken for a full one, "
                 "no read error is swallowed", floor=100)

def _run(ctx):
    F = ctx.facts("default")
    ctx.rule("C11.W123", "append-only discipline in every reachable abstract writer state: record bytes and index entries only at "
                         "the end of a destination that holds a header; headers only at offset 0 (typestate fixpoint over all histories)", floor=2)
    ctx.rule("C11.I4", "in write_shape the running length (and the record counter) is increased only after the bytes it describes "
                       "were emitted: the store follows every data operation of the path", floor=2)
    ctx.rule("C11.I5", "only finalize and the header reservation ever seek: write_shape seeks only to offset 0 immediately before "
                       "writing a header group; no other function on the writer graph seeks", floor=3)
    ctx.rule("C11.I6", "the placeholder header written by the first write declares the length the constructors installed (50 words: "
                       "an empty file) — the length field of that header group is the unmodified in-memory value", floor=1)
    ctx.rule("C11.last", "finalize rewrites each header in place as its last data operation: per destination the operations are "
                         "exactly seek(0), 100-byte header, seek(end), flush", floor=2)
    ctx.assumptions += ["a persisted prefix of an append-only operation sequence contains only bytes that were written, in order "
                        "(torn 4-byte fields inside the cut operation are argued, not enumerated)"]
    W, tr = build(ctx, F, "C11.W123")
    if W is None:
        return
    fw, ff = tr['write_shape:fn'], tr['finalize:fn']
    wsite, fsite = ctx.site_of(F, fw["def"]), ctx.site_of(F, ff["def"])
    for has_shx in (False, True):
        seen, findings, n = wm.explore(W, tr, has_shx)
        bad = [(m, h) for inv, m, h in findings if inv == 'W123']
        tag = "with index" if has_shx else "without index"
        if not bad:
            ctx.ob("C11.W123", "%s: %d states" % (tag, len(seen)), True, "holds in all %d reachable states, %d transitions" % (len(seen), n),
                   site=wsite)
        best = {}
        for m, h in bad:
            if m not in best or len(h) < len(best[m]):
                best[m] = h
        for m, h in best.items():
            ctx.ob("C11.W123", tag, False, "%s — shortest history: new; %s" % (m, "; ".join(h)), site=wsite,
                   key="C11.W123|%s" % m.split(' (')[0][:80])
    # --- I4 -----------------------------------------------------------------------------------
    okp = [t for t in tr['write_shape'] if t['class'] == 'ok']
    for label, field in (("file length", (W.header_field, 'file_length')), ("record counter", (W.recnum_field,))):
        good = bool(okp)
        why = []
        for t in okp:
            flat = list(absint.flat_effects(t['path'].eff))
            spath = (wm.SELF, tuple(('f', x) for x in field))
            st_idx = [i for i, e in enumerate(flat) if e[0] == 'store' and e[1] == spath]
            data_idx = [i for i, e in enumerate(flat) if (e[0] == 'io' and e[1] in ('write', 'write_all')) or
                        (e[0] == 'call' and e[1] == 'record::WritableShape::write_to')]
            if len(st_idx) != 1:
                good = False
                why.append("%d stores to the %s" % (len(st_idx), label))
            elif data_idx and st_idx[0] < max(data_idx):
                good = False
                why.append("the %s is advanced before the last byte of the record / index entry is emitted" % label)
        ctx.ob("C11.I4", label, good, "; ".join(sorted(set(why))) or "advanced once, after the last emission, on all %d success paths" % len(okp),
               site=wsite, key="C11.I4|write_shape|%s" % label)
    # --- I5 -----------------------------------------------------------------------------------
    good = True
    why = []
    for t in tr['write_shape']:
        ops = t['ops']
        for i, (d, k, info) in enumerate(ops):
            if k == 'seek':
                nxt = ops[i + 1] if i + 1 < len(ops) else None
                if info != 'start0' or not nxt or nxt[1] != 'header' or nxt[0] != d:
                    good = False
                    why.append("write_shape seeks (%s) other than to reserve a header" % info)
    ctx.ob("C11.I5", "write_shape", good, "; ".join(sorted(set(why))) or "seeks only to 0 right before a header group", site=wsite,
           key="C11.I5|write_shape")
    # no other public method of the writers seeks: analyse each with write_shape / finalize left opaque
    seekers = []
    nmeth = 0
    for f in util.api_roots(F, ("writer::ShapeWriter", "writer::Writer"), traits_for=("std::ops::Drop",)):
        if f["def"] in (fw["def"], ff["def"]):
            continue
        nmeth += 1
        try:
            ps, _ = util.run_fn(F, f, inline=lambda g, t: g["def"] not in (fw["def"], ff["def"]))
        except absint.Unanalysable as e:
            ctx.unanalysable("C11.I5", f["def"], str(e))
            continue
        for p in ps:
            if any(e[0] == 'io' and e[1] in ('seek', 'rewind') for e in absint.flat_effects(p.eff)):
                seekers.append(f["def"])
    ctx.ob("C11.I5", "who seeks", not seekers, "%d other public writer methods analysed (write_shape / finalize opaque); methods that "
           "seek on their own: %s" % (nmeth, sorted(set(seekers))), site=fsite, key="C11.I5|who-seeks")
    ctx.ob("C11.I5", "finalize seeks absolutely", all(info in ('start0', 'end0') for t in tr['finalize'] for d, k, info in t['ops'] if k == 'seek'),
           "every seek in finalize is Start(0) or End(0)", site=fsite, key="C11.I5|finalize")
    # --- I6 -----------------------------------------------------------------------------------
    first = [t for t in tr['write_shape'] if t['class'] == 'ok' and t['guards']['type_null'] is True]
    good = bool(first)
    why = []
    for t in first:
        for d, k, info in t['ops']:
            if k != 'header':
                continue
            prims = info['prims']
            be = [e for e in prims if e[3].get('endian') == 'BigEndian' and e[3].get('ty') == 'i32']
            if len(be) != 2 or be[1][4] != wm.field_load(W.header_field, 'file_length'):
                good = False
                why.append("placeholder header on %s declares %s" % (d, absint.term_str(be[1][4]) if len(be) > 1 else '?'))
    ctx.ob("C11.I6", "placeholder length", good, "; ".join(sorted(set(why))) or
           "the placeholder declares the constructors' length (50 words, checked in C09.ctor) on all %d first-write paths" % len(first),
           site=wsite, key="C11.I6|write_shape")
    # --- last ---------------------------------------------------------------------------------
    fin = [t for t in tr['finalize'] if t['class'] == 'ok' and t['ops']]
    for has_shx in (False, True):
        cands = [t for t in fin if t['guards']['shx'] in (has_shx, None)]
        good = bool(cands)
        desc = []
        for t in cands:
            for d in (('shp', 'shx') if has_shx else ('shp',)):
                seq = [(k, info if k == 'seek' else (info['bytes'] if k == 'header' else None)) for dd, k, info in t['ops'] if dd == d]
                if seq != [('seek', 'start0'), ('header', 100), ('seek', 'end0'), ('flush', None)]:
                    good = False
                    desc.append("%s: %s" % (d, seq))
        # while one file's cursor is inside its header nothing fallible happens on the other file: an error there would return
        # with the first file positioned at byte 100, and the next appended record would overwrite the first one
        inter = []
        for t in cands:
            ops = t['ops']
            for d in set(dd for dd, k, info in ops):
                s0 = [i for i, (dd, k, info) in enumerate(ops) if dd == d and k == 'seek' and info == 'start0']
                e0 = [i for i, (dd, k, info) in enumerate(ops) if dd == d and k == 'seek' and info == 'end0']
                if s0 and e0:
                    inter += ["%s on %s while %s is positioned in its header" % (k, dd, d)
                              for dd, k, info in ops[s0[0]:e0[-1]] if dd != d]
        ctx.ob("C11.last", "cursor restored before the other file is touched (%s index)" % ("with" if has_shx else "without"),
               not inter and bool(cands), "; ".join(sorted(set(inter))) or
               "between a file's seek(0) and its seek(end) every operation is on that file", site=fsite,
               key="C11.last|finalize|restore|%s" % has_shx)
        ctx.ob("C11.last", "finalize %s index" % ("with" if has_shx else "without"), good,
               "; ".join(sorted(set(desc))) or "seek(0), header(100), seek(end), flush per destination", site=fsite,
               key="C11.last|finalize|%s" % has_shx)
