"""C06 — typed vs generic reads, shape type identity (finite tables, E1 + E3)."""
import re

from .. import absint, util, mir, discipline
from ..absint import is_agg, agg_field


def shape_variants(F):
    adt = F.adts.get("record::Shape")
    if not adt:
        return None
    return {v["vi"]: v for v in adt["variants"]}


def wrapping(F, ctx):
    """self_ty -> Shape variant name, from the `From<T> for Shape` impls (each returns Shape::V(arg))."""
    out = {}
    for imp in F.trait_impls("std::convert::From"):
        if imp["self_ty"] != "record::Shape":
            continue
        src = imp["trait_args"][1]
        for m in imp["methods"]:
            f = F.fns.get(m["key"])
            if not f:
                continue
            ps, _ = util.run_fn(F, f)
            vs = set()
            ok = True
            for p in ps:
                if is_agg(p.ret, "record::Shape") and len(p.ret[4]) == 1 and p.ret[4][0][1] == ('param', 1):
                    vs.add(p.ret[2])
                else:
                    ok = False
            if ok and len(vs) == 1:
                out[src] = vs.pop()
            else:
                out[src] = None
    return out


def agg_(adt, variant, vi):
    return absint.agg(adt, variant, vi, ())


def run(ctx):
    _run(ctx)
    ctx.delegate("C14", ["C14.seek", "C14.one"], "C06.position",
                 "after a typed read failed the following records are still located by their index entries (absolute seeks), so "
                 "record by record the typed read equals the generic read plus conversion", floor=3)
    ctx.delegate("C07", ["C07.progress"], "C06.resync",
                 "after a failed typed read the index-less iteration does not go on decoding from an unsynchronised position "
                 "(which could yield a value of a type the file does not hold)", floor=4)

def _run(ctx):
    F = ctx.facts("default")
    ctx.rule("C06.variant", "Shape::shapetype maps variant V to ShapeType::V for each of the 14 variants", floor=14)
    ctx.rule("C06.concrete", "<T as HasShapeType>::shapetype() is the ShapeType named like the Shape variant wrapping T "
                             "(wrapping read from the From<T> for Shape impls)", floor=13)
    ctx.rule("C06.dispatch", "each arm of <Shape as ReadableShape>::read_from builds the variant wrapping the type whose "
                             "content reader it calls, and that type's shapetype() is the arm's code; NullShape reads nothing", floor=14)
    ctx.rule("C06.typed", "blanket ReadableShape::read_from: the content reader is reached only when the code read equals "
                          "Self::shapetype(); otherwise Err(MismatchShapeType{requested: Self::shapetype(), actual: code read}) "
                          "and nothing further is read", floor=2)
    ctx.rule("C06.conv", "From<T> for Shape / TryFrom<Shape> for T use the same variant (round trip is the identity); the "
                         "mismatch error is {requested: T::shapetype(), actual: shape.shapetype()}", floor=26)
    ctx.rule("C06.forward", "the typed iterator and random access hand the record reader's result on unchanged: its error (in particular "
                            "the type-mismatch error) is returned as the item, its shape is the item's payload — no filtering by error kind", floor=2)
    ctx.rule("C06.bulk", "convert_shapes_to_vec_of returns the first conversion error and pushes every converted value in order", floor=2)

    vars_ = shape_variants(F)
    if vars_ is None:
        ctx.missing("C06.variant", "enum record::Shape")
        return
    st_codes = util.shapetype_discr(F) or {}

    # --- C06.variant --------------------------------------------------------------------------
    own_table = {}
    fs = F.inherent_method("record::Shape", "shapetype")
    if not fs:
        ctx.missing("C06.variant", "Shape::shapetype")
    else:
        f = fs[0]
        ps, _ = util.run_fn(F, f)
        scrut = ('discr', ('load', (('T', ('param', 1)), ())))
        rows, (excl, dflt) = util.enum_table(ps, scrut)
        for vi, v in sorted(vars_.items()):
            pl = rows.get(vi)
            if pl is None:
                pl = dflt.for_value(vi) if excl is not None else []
            got = sorted(set(util.variant_name(p.ret) or absint.term_str(p.ret) for p in pl))
            own_table[v["name"]] = got[0] if len(got) == 1 else None
            ctx.ob("C06.variant", "Shape::%s" % v["name"], got == [v["name"]],
                   "Shape::%s(..).shapetype() = %s, expected ShapeType::%s" % (v["name"], got, v["name"]),
                   site=ctx.site_of(F, f["def"]), key="C06.variant|Shape::shapetype|arm %s" % v["name"])

    # --- C06.concrete -------------------------------------------------------------------------
    wrap = wrapping(F, ctx)
    shapes = util.concrete_shapes(F)
    type_of_ty = {}
    for ty, name, f in shapes:
        if ty == "record::Shape":
            continue
        type_of_ty[ty] = name
        w = wrap.get(ty)
        ctx.ob("C06.concrete", util.alias(ty), name is not None and w == name,
               "<%s as HasShapeType>::shapetype() = %s; wrapped by Shape::%s" % (util.alias(ty), name, w),
               site=ctx.site_of(F, f["def"]) if f else None)

    # --- C06.dispatch -------------------------------------------------------------------------
    f = F.impl_method("record::ReadableShape", "record::Shape", "read_from")
    if not f:
        ctx.missing("C06.dispatch", "<Shape as ReadableShape>::read_from")
    else:
        ps, _ = util.run_fn(F, f, inline=lambda g, t: "read_shape_content" not in g["def"], summarise_pure=False)
        seen = set()
        for p in ps:
            ios = p.io()
            if not ios:
                continue
            code_term = ios[0][-1]
            val = util.scrutinee_constraint(p, code_term)
            if not isinstance(val, int):
                # invalid code path: must be an error
                ctx.ob("C06.dispatch", "invalid code", is_agg(p.ret, None, 'Err'),
                       "invalid type code returns %s" % absint.term_str(p.ret), site=ctx.site_of(F, f["def"]), trivial=True)
                continue
            names = [n for n, c in st_codes.items() if c == val]
            name = names[0] if names else "?"
            seen.add(name)
            calls = [e for e in p.eff if e[0] == 'call' and e[2] and 'read_shape_content' in e[2]]
            guard = [t for t, v in p.cons if t[0] == 'discr' and t[1][0] == 'checked' and v == 0
                     and not absint.contains(t[1], code_term)]
            if guard and is_agg(p.ret, None, 'Err') and not calls:
                # a checked size computation failed: an error that does not depend on the type code and decodes nothing
                ctx.ob("C06.dispatch", "size guard (%s)" % name, True, "%s overflows -> error, nothing decoded" %
                       absint.term_str(guard[0][1]), site=ctx.site_of(F, f["def"]), trivial=True)
                continue
            if not is_agg(p.ret, None, 'Ok'):
                ctx.ob("C06.dispatch", "arm %s" % name, False, "arm returns %s" % absint.term_str(p.ret),
                       site=ctx.site_of(F, f["def"]))
                continue
            shp = agg_field(p.ret, '0')
            built = util.variant_name(shp)
            if name == "NullShape":
                ok = built == "NullShape" and not calls and len(ios) == 1
                ctx.ob("C06.dispatch", "arm NullShape", ok,
                       "NullShape arm builds Shape::%s, %d content reads" % (built, len(calls)), site=ctx.site_of(F, f["def"]))
                continue
            if len(calls) != 1:
                ctx.ob("C06.dispatch", "arm %s" % name, False, "arm calls %d content readers" % len(calls),
                       site=ctx.site_of(F, f["def"]))
                continue
            m = re.match(r"<(.+) as record::ConcreteReadableShape>::read_shape_content", calls[0][2])
            rty = m.group(1) if m else None
            payload_ok = len(shp[4]) == 1 and shp[4][0][1] == calls[0][-1]
            ok = (built == name and wrap.get(rty) == built and type_of_ty.get(rty) == name and payload_ok)
            ctx.ob("C06.dispatch", "arm %s" % name, ok,
                   "code %d (%s): calls reader of %s (shapetype %s, wrapped by Shape::%s), builds Shape::%s%s"
                   % (val, name, util.alias(rty) if rty else None, type_of_ty.get(rty), wrap.get(rty), built,
                      "" if payload_ok else " with a payload that is not the reader's result"),
                   site=ctx.site_of(F, f["def"]))
        for name in st_codes:
            if name not in seen:
                ctx.ob("C06.dispatch", "arm %s" % name, False, "no arm for ShapeType::%s" % name, site=ctx.site_of(F, f["def"]))

    # --- C06.typed ----------------------------------------------------------------------------
    f = None
    for imp in F.trait_impls("record::ReadableShape"):
        if imp["self_ty"] == "S":
            for m in imp["methods"]:
                f = F.fns.get(m["key"])
    if not f:
        ctx.missing("C06.typed", "impl<S: ConcreteReadableShape> ReadableShape for S")
    else:
        ps, _ = util.run_fn(F, f, summarise_pure=False)
        n_match = n_mis = 0
        for p in ps:
            ios = p.io()
            if not ios:
                continue
            code_term = ios[0][-1]
            codeval = util.scrutinee_constraint(p, code_term)
            if not isinstance(codeval, int):
                continue    # invalid code: error path (C19)
            name = [n for n, c in st_codes.items() if c == codeval][0]
            reader = [e for e in p.eff if e[0] == 'call' and 'read_shape_content' in e[1]]
            stcalls = [e for e in p.eff if e[0] == 'call' and e[1] == 'record::HasShapeType::shapetype']
            # the equality atom: discr(ShapeType::name) == discr(S::shapetype())
            eqs = [(t, v) for t, v in p.cons if t[0] == 'bin' and t[1] in ('Eq', 'Ne')]
            # the same test recorded as a constraint on the discriminant of S::shapetype() (comparison with a known variant)
            for t, v in p.cons:
                if t[0] == 'discr' and any(t[1] == s_[-1] for s_ in stcalls):
                    k_ = st_codes.get(name)       # ShapeType's discriminants are the ESRI codes
                    if v == k_:
                        eqs.append((('bin', 'Eq', agg_('ShapeType', name, k_), t[1], 'partial_eq'), 1))
                    elif isinstance(v, tuple) and k_ in v[1]:
                        eqs.append((('bin', 'Eq', agg_('ShapeType', name, k_), t[1], 'partial_eq'), 0))
            if reader:
                n_match += 1
                # reached only under the equality of the code read with Self::shapetype()
                ok = False
                for t, v in eqs:
                    ops = (t[2], t[3])
                    has_code = any(o == ('int', codeval) or o == ('int', [c for n, c in st_codes.items() if n == name][0])
                                   or (is_agg(o, 'ShapeType') and o[2] == name) for o in ops)
                    has_self = any(absint.contains(o, s[-1]) for o in ops for s in stcalls)
                    truth = (v != 0 and v != ('not', ())) if t[1] == 'Eq' else (v == 0)
                    if isinstance(v, tuple):
                        truth = (t[1] == 'Eq')
                    if has_code and has_self and truth:
                        ok = True
                ctx.ob("C06.typed", "match path (%s)" % name, ok and is_agg(p.ret) is not None,
                       "content reader reached under %s" % [(absint.term_str(t), v) for t, v in eqs],
                       site=ctx.site_of(F, f["def"]), key="C06.typed|match")
            elif any(t[0] == 'discr' and t[1][0] == 'checked' and v == 0 and not absint.contains(t[1], code_term)
                     for t, v in p.cons) and is_agg(p.ret, None, 'Err') and \
                    any(t[0] == 'bin' and t[1] in ('Eq', 'Ne') and ((v != 0) == (t[1] == 'Eq'))
                        for t, v in ((t, 1 if v == ('not', (0,)) else v) for t, v in eqs) if isinstance(v, int)):
                # the types match and a checked size computation failed: an error, nothing decoded
                ctx.ob("C06.typed", "size guard (%s)" % name, True, "types equal, size computation overflows -> error",
                       site=ctx.site_of(F, f["def"]), trivial=True)
            else:
                n_mis += 1
                err = agg_field(p.ret, '0') if is_agg(p.ret, None, 'Err') else None
                ok = is_agg(err, 'Error', 'MismatchShapeType')
                if ok:
                    req = agg_field(err, 'requested')
                    act = agg_field(err, 'actual')
                    ok = any(req == s[-1] for s in stcalls) and util.variant_name(act) == name and len(ios) == 1
                ctx.ob("C06.typed", "mismatch path (%s)" % name, ok,
                       "on a record of type %s a typed read of another type returns %s after %d reads"
                       % (name, absint.term_str(p.ret), len(ios)), site=ctx.site_of(F, f["def"]), key="C06.typed|mismatch")
        if not n_match or not n_mis:
            ctx.ob("C06.typed", "paths", False, "expected both a match and a mismatch path (%d, %d)" % (n_match, n_mis))

    # --- C06.conv -----------------------------------------------------------------------------
    for imp in F.trait_impls("std::convert::TryFrom"):
        if imp["trait_args"][1:] != ["record::Shape"]:
            continue
        ty = imp["self_ty"]
        if ty.startswith("geo_types"):
            continue
        for m in imp["methods"]:
            f = F.fns.get(m["key"])
            if not f:
                continue
            ps, _ = util.run_fn(F, f, summarise_pure=False)
            want_variant = wrap.get(ty)
            okv = None
            bad = []
            scrut = ('discr', ('param', 1))
            for p in ps:
                dv = None
                for t, v in p.cons:
                    if t == scrut:
                        dv = v
                        break
                if is_agg(p.ret, None, 'Ok'):
                    payload = agg_field(p.ret, '0')
                    vname = vars_[dv]["name"] if isinstance(dv, int) and dv in vars_ else None
                    if okv is not None or vname != want_variant or payload != ('proj', ('param', 1), (('v', vname), ('f', '0'))):
                        bad.append("Ok path on variant %s returns %s" % (vname, absint.term_str(payload)))
                    okv = vname
                elif is_agg(p.ret, None, 'Err'):
                    err = agg_field(p.ret, '0')
                    if not is_agg(err, 'Error', 'MismatchShapeType'):
                        bad.append("error is %s" % absint.term_str(err))
                        continue
                    req = util.variant_name(agg_field(err, 'requested'))
                    act = util.variant_name(agg_field(err, 'actual'))
                    # which variant is this path about: second constraint on the same discriminant
                    vs = [v for t, v in p.cons if t == scrut and isinstance(v, int)]
                    vi = vs[-1] if vs else None
                    vname = vars_[vi]["name"] if vi in vars_ else None
                    if req != type_of_ty.get(ty):
                        bad.append("requested = %s, T::shapetype() = %s" % (req, type_of_ty.get(ty)))
                    if vname is not None and act != own_table.get(vname):
                        bad.append("actual = %s for Shape::%s but Shape::shapetype gives %s" % (act, vname, own_table.get(vname)))
                else:
                    bad.append("returns %s" % absint.term_str(p.ret))
            ctx.ob("C06.conv", "TryFrom<Shape> for %s" % util.alias(ty), not bad and okv == want_variant,
                   "; ".join(bad) or "Ok exactly on Shape::%s, mismatch error well formed" % okv,
                   site=ctx.site_of(F, f["def"]))
            ctx.ob("C06.conv", "From<%s> for Shape" % util.alias(ty), want_variant is not None and okv == want_variant,
                   "From wraps into Shape::%s, TryFrom unwraps Shape::%s" % (want_variant, okv),
                   site=ctx.site_of(F, f["def"]))

    # --- C06.bulk -----------------------------------------------------------------------------
    f = F.identity("record::convert_shapes_to_vec_of")
    if not f:
        ctx.missing("C06.bulk", "convert_shapes_to_vec_of")
    else:
        # success: loop body pushes the converted value; failure: the error reaches the return value
        ps, I = util.run_fn(F, f)
        sites = [s for s, w in I.fallible_sites if 'try_from' in w]
        pushes = [e for p in ps for e in absint.flat_effects(p.eff) if e[0] == 'push']
        conv = [e for p in ps for e in absint.flat_effects(p.eff) if e[0] == 'call' and 'try_from' in e[1]]
        # the same function written as `shapes.into_iter().map(|s| S::try_from(s)..).collect::<Result<Vec<S>, _>>()`: collecting
        # into a Result visits the elements in order and stops at the first Err, exactly as `?` in a loop does
        chain = [p for p in ps if p.status == 'return' and p.ret[0] == 'collect' and p.ret[1][0] == 'map' and
                 p.ret[1][1] == ('into_iter', ('param', 1)) and p.ret[1][2][0] == 'closure']
        if chain and len(chain) == len(ps) and not pushes and f["locals"][0]["ty"].startswith("std::result::Result<std::vec::Vec<"):
            g_ = F.fns.get(chain[0].ret[1][2][1])
            okc = g_ is not None
            if okc:
                sites_c, paths_c, err_c = discipline.fallible_sites(F, g_)
                tf = [(s_, w) for s_, w in (sites_c or []) if 'try_from' in w]
                okc = len(tf) == 1 and all(
                    len([e for e in q.eff if e[0] == 'call' and 'try_from' in e[1] and e[3] and e[3][0] == ('param', 2)]) == 1 for q in paths_c)
                if okc:
                    for q in absint.Interp(F, inline=discipline.modular_inline, fail_site=tf[0][0]).run(g_):
                        if any(x == tf[0][0] for x, _ in discipline.site_effects(q)) and not discipline.carries_error(q.ret, ('err', tf[0][0])):
                            okc = False
            ctx.ob("C06.bulk", "push converted", okc, "map(|s| S::try_from(s)) over the input, collected into Result<Vec<S>, _>",
                   site=ctx.site_of(F, f["def"]))
            ctx.ob("C06.bulk", "first error returned", okc, "collect::<Result<_, _>>() stops at the first failing S::try_from and returns it",
                   site=ctx.site_of(F, f["def"]))
            from .C20 import REORDER
            bad = sorted(set(mir.callee_decl(t) for g in [f, g_] if g for b, t in mir.calls(g) if mir.callee_decl(t) in REORDER))
            ctx.ob("C06.bulk", "one forward pass", okc and not bad, ("uses %s" % bad) if bad else "one map over into_iter() of the input, no reordering adaptor",
                   site=ctx.site_of(F, f["def"]), key="C06.bulk|forward")
            pushes = conv = None
        if pushes is not None:
            ok = bool(pushes) and bool(conv) and all(any(absint.contains(pu[2], c[-1]) for c in conv) for pu in pushes)
            ctx.ob("C06.bulk", "push converted", ok, "every push stores the result of S::try_from (%d pushes)" % len(pushes),
                   site=ctx.site_of(F, f["def"]))
            okf = bool(sites)
            for s in set(sites):
                ps2, _ = util.run_fn(F, f, fail_site=s)
                errp = [p for p in ps2 if any(absint.contains(p.ret, ('err', s)) for _ in [0]) and is_agg(p.ret, None, 'Err')]
                reach = [p for p in ps2 if any(e for e in absint.flat_effects(p.eff) if e[0] == 'call' and e[4] == s)]
                # every path on which the failing call happened must return Err(e)
                for p in reach:
                    if not (is_agg(p.ret, None, 'Err') and absint.contains(p.ret, ('err', s))):
                        okf = False
                if not errp:
                    okf = False
            ctx.ob("C06.bulk", "first error returned", okf, "a failing S::try_from makes the function return that error",
                   site=ctx.site_of(F, f["def"]))
            # in order, from the first: the shapes are visited by one forward pass over the input (so the first failing one is reported)
            from .C20 import REORDER
            bad = sorted(set(mir.callee_decl(t) for g in [f] + [h for h in F.identity_fns() if h["def"].startswith(f["def"] + "::{closure")]
                             for b, t in mir.calls(g) if mir.callee_decl(t) in REORDER))
            loops = [e for p in ps for e in absint.flat_effects(p.eff) if e[0] == 'loop']
            fwd = bool(loops) and all(absint.term_str(lp[2].get('iter')) in ('into_iter(arg1)', 'iter(arg1)', 'iter(*arg1)') for lp in loops)
            ctx.ob("C06.bulk", "one forward pass", not bad and fwd,
                   ("uses %s" % bad) if bad else ("loops over %s" % sorted(set(absint.term_str(lp[2].get('iter'))[:50] for lp in loops)) if not fwd
                                                   else "a single loop over the input vector, first to last, no reordering adaptor"),
                   site=ctx.site_of(F, f["def"]), key="C06.bulk|forward")


    # --- C06.forward --------------------------------------------------------------------------
    from .C14 import iterator_next
    fns = []
    fn = iterator_next(F)
    if fn:
        fns.append(fn)
    else:
        ctx.missing("C06.forward", "<ShapeIterator as Iterator>::next")
    rn = F.inherent_method("reader::ShapeReader", "read_nth_shape_as")
    if rn:
        fns.append(rn[0])
    else:
        ctx.missing("C06.forward", "ShapeReader::read_nth_shape_as")
    def record_sites(sites):
        out = []
        for s_, w in sites:
            ty = discipline.site_dest_ty(F, s_) or ""
            if util.local_fn(F, w) is not None and ty.startswith("std::result::Result<") and not ty.startswith("std::result::Result<(),"):
                out.append((s_, w))
            elif w in ("record::ReadableShape::read_from", "record::RecordHeader::read_from"):
                out.append((s_, w))
        return out

    # an entry point that only chooses between private helpers and returns what they return (`match idx { Some(_) =>
    # self.next_indexed(), None => self.next_sequential() }`) is decided on the helpers, under the entry point's name
    def expand(g, entry, depth):
        sites, paths, err = discipline.fallible_sites(F, g)
        if sites is None or record_sites(sites) or depth == 0:
            return [(g, entry)]
        hs = []
        for p in paths:
            r = p.ret if p.status == 'return' else None
            h = util.local_fn(F, r[2]) if r is not None and r[0] == 'ret' and len(r) > 2 and isinstance(r[2], str) else None
            if h is not None and h not in hs and h is not g:
                hs.append(h)
        if not hs:
            return [(g, entry)]
        for p in paths:
            for e in p.eff:
                if e[0] == 'call' and any(util.local_fn(F, x) in hs for x in (e[1], e[2]) if isinstance(x, str)):
                    if p.status == 'return' and p.ret != e[-1]:
                        return [(g, entry)]           # a helper's result is looked at or rewrapped here: decide g itself
        out = []
        for h in hs:
            out += expand(h, entry, depth - 1)
        return out

    expanded = []
    for g in fns:
        expanded += expand(g, g, 3)
    for g, entry in expanded:
        sites, paths, err = discipline.fallible_sites(F, g)
        if sites is None:
            ctx.unanalysable("C06.forward", g["def"], err)
            continue
        # the record reader, by role: the fallible call to a local function whose success value is not `()`
        # (the seeks return Result<(), _> / Result<u64, _> from std)
        rec = []
        for s_, w in sites:
            ty = discipline.site_dest_ty(F, s_) or ""
            if util.local_fn(F, w) is not None and ty.startswith("std::result::Result<") and not ty.startswith("std::result::Result<(),"):
                rec.append((s_, w))
            elif w in ("record::ReadableShape::read_from", "record::RecordHeader::read_from"):
                rec.append((s_, w))         # the record is read in place (no private helper): the typed content reader itself
        ok = bool(rec)
        why = []
        for s_, w in rec:
            I = absint.Interp(F, inline=discipline.modular_inline, fail_site=s_)
            for p in I.run(g):
                if not any(x == s_ for x, _ in discipline.site_effects(p)):
                    continue
                if p.status != 'return' or not discipline.carries_error(p.ret, ('err', s_)):
                    ok = False
                    why.append("a failing record read yields %s" % absint.term_str(p.ret)[:60])
                else:
                    # the error must be the item itself, untouched: Some(Err(e)) with e = the record reader's error
                    item = agg_field(p.ret, '0') if is_agg(p.ret, None, 'Some') else None
                    e = agg_field(item, '0') if is_agg(item, None, 'Err') else None
                    if e != ('err', s_) and e != ('from', ('err', s_)):
                        ok = False
                        why.append("the error is rewrapped as %s" % absint.term_str(e)[:60] if e else "not an item")
        # success: the payload is the shape the record reader returned
        for p in paths:
            if p.status == 'return' and is_agg(p.ret, None, 'Some') and is_agg(agg_field(p.ret, '0'), None, 'Ok'):
                shp = agg_field(agg_field(p.ret, '0'), '0')
                rets = [e[-1] for e in p.eff if e[0] == 'call' and any(e[4] == s_ for s_, w in rec)]
                if not any(absint.contains(shp, r) for r in rets):
                    ok = False
                    why.append("the item is not the shape the record reader returned")
        label = entry["def"].split("::")[-1] + ("" if g is entry else " via " + g["def"].split("::")[-1])
        ctx.ob("C06.forward", label, ok, "; ".join(sorted(set(why))) or
               "Err(e) -> Some(Err(e)) untouched, Ok((_, shape)) -> Some(Ok(shape)) (%d record-read sites)" % len(rec),
               site=ctx.site_of(F, g["def"]), key="C06.forward|%s" % label)
