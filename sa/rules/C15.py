"""C15 — reader results do not depend on what was called before (E4 typestate on the source position)."""
from .. import absint, affine, mir, util
from ..absint import is_agg, agg_field

SELF = ('T', ('param', 1))


def source_field(F):
    adt = F.adts.get("reader::ShapeReader")
    if not adt:
        return None, None
    src = [x["name"] for x in adt["variants"][0]["fields"] if x["ty"] == "T"]
    idx = [x["name"] for x in adt["variants"][0]["fields"] if x["ty"].startswith("std::option::Option<std::vec::Vec<")]
    return (src[0] if len(src) == 1 else None), (idx[0] if len(idx) == 1 else None)


OFFSET_FIELD = [None]      # name of the index entry's offset field, found by role in run()


def last_position(p, recv):
    """abstract position class of the source after a path: from its last absolute seek and later reads"""
    pos = None
    for e in p.io():
        if e[2] != recv:
            continue
        if e[1] == 'seek':
            v = e[4]
            if is_agg(v, 'std::io::SeekFrom', 'Start'):
                t = agg_field(v, '0')
                pos = 'c100' if t == ('int', 100) else ('off' if ('.' + (OFFSET_FIELD[0] or '?')) in absint.term_str(t) else 'other')
            elif is_agg(v, 'std::io::SeekFrom', 'End'):
                pos = 'end'
            else:
                pos = 'other'
        elif e[1] in ('read', 'read_exact'):
            pos = 'after-read' if pos is None else pos + '+read'
    return pos


def run(ctx):
    _run(ctx)
    reader_seek_rule(ctx, ctx.facts("default"))
    reader_state_rule(ctx, ctx.facts("default"))
    ctx.delegate("C03", ["C03.size"], "C15.step",
                 "iteration stays in step with the index: a record is accepted only when its declared length is exactly what the "
                 "reader consumes, so the tracked position is the real one when the seek is skipped", floor=20)
    ctx.delegate("C14", ["C14.seek", "C14.one", "C14.end"], "C15.iter",
                 "an iteration begun at a position yields exactly the records from there on: one index entry per item, a seek "
                 "whenever the entry's offset differs from the tracked position, the end when the index is exhausted", floor=5)

def reader_state_rule(ctx, F):
    """C15.R6: random access and counting leave no trace in the reader besides the source position"""
    ctx.rule("C15.R6", "read_nth_shape_as / shape_count change no field of the reader: whatever they store is, at the end of every "
                       "path, what the constructors put there (so a later iteration or access cannot depend on them)", floor=2)
    ctor = {}
    for cname in ("new", "with_shx"):
        fs = F.inherent_method("reader::ShapeReader", cname)
        if fs:
            try:
                for p in util.run_fn(F, fs[0], inline=lambda g, t: False)[0]:
                    r = agg_field(p.ret, '0') if is_agg(p.ret, None, 'Ok') else None
                    if is_agg(r):
                        for k, v in r[4]:
                            ctor.setdefault(k, set()).add(v)
            except absint.Unanalysable:
                pass
    for mname in ("read_nth_shape_as", "shape_count"):
        fs = F.inherent_method("reader::ShapeReader", mname)
        if not fs:
            ctx.missing("C15.R6", "ShapeReader::%s" % mname)
            continue
        try:
            ps, _ = util.run_fn(F, fs[0], inline=lambda g, t: g["kind"] == "Closure" or not (
                g["def"].startswith(("record::", "header::", "<record::", "<header::")) or "read_one_shape" in g["def"]))
        except absint.Unanalysable as e:
            ctx.unanalysable("C15.R6", mname, str(e))
            continue
        bad = set()
        for p in ps:
            if p.status != 'return':
                continue
            last = {}
            for e in absint.flat_effects(p.eff):
                if e[0] == 'store' and e[1][0] == SELF and e[1][1] and e[1][1][0][0] == 'f':
                    last[e[1][1][0][1]] = e[2]
            src_field = source_field(F)[0]
            for fld, v in last.items():
                if fld == src_field:
                    continue            # the source itself: its position is what R0-R2 decide
                if v not in ctor.get(fld, ()):
                    bad.add("field `%s` is left holding %s" % (fld, absint.term_str(v)[:50]))
        ctx.ob("C15.R6", mname, not bad, "; ".join(sorted(bad)) or "no reader field is changed (%d paths)" % len(ps),
               site=ctx.site_of(F, fs[0]["def"]), key="C15.R6|%s" % mname)


def reader_seek_rule(ctx, F):
    """C15.R5: the complete reader's seek moves shapes and rows together or not at all"""
    ctx.rule("C15.R5", "Reader::seek positions the shapes first and touches the attribute rows only once that succeeded, both with the "
                       "index it was given: a refused seek (no index) leaves the pairs aligned", floor=2)
    fs = F.inherent_method("reader::Reader", "seek")
    adt = F.adts.get("reader::Reader")
    if not fs or not adt:
        ctx.missing("C15.R5", "Reader::seek")
        return
    flds = adt["variants"][0]["fields"]
    shp = [x["name"] for x in flds if x["ty"].startswith("reader::ShapeReader<")]
    dbf = [x["name"] for x in flds if x["ty"].startswith("dbase::")]
    if len(shp) != 1 or len(dbf) != 1:
        ctx.missing("C15.R5", "Reader: one ShapeReader field and one dbase reader field")
        return
    f = fs[0]
    site = ctx.site_of(F, f["def"])
    try:
        ps = absint.Interp(F, inline=lambda g, t: False, fork_fallible=True).run(f)
    except absint.Unanalysable as e:
        ctx.unanalysable("C15.R5", "Reader::seek", str(e))
        return

    def side(e):
        a0 = absint.term_str(e[3][0]) if e[3] else ''
        if ('.' + shp[0]) in a0:
            return 'shapes'
        if ('.' + dbf[0]) in a0:
            return 'rows'
        return None
    okp, okf, n_ok, n_fail = True, True, 0, 0
    desc = set()
    for p in ps:
        if p.status != 'return':
            okp = False
            desc.add("a path does not return (%s)" % p.status)
            continue
        calls = [(side(e), e) for e in p.eff if e[0] == 'call' and side(e)]
        order = [s_ for s_, _ in calls]
        same_index = all(len(e[3]) >= 2 and e[3][1] == ('param', 2) for _, e in calls)
        shape_failed = any(s_ == 'shapes' and absint.is_agg(e[-1], None, 'Err') for s_, e in calls) or \
            (order == ['shapes'] and is_agg(p.ret, None, 'Err'))
        if is_agg(p.ret, None, 'Ok'):
            n_ok += 1
            if order != ['shapes', 'rows'] or not same_index:
                okp = False
                desc.add("a successful seek performs %s%s" % (order, "" if same_index else " with different indices"))
        else:
            n_fail += 1
            if order and order[0] != 'shapes':
                okf = False
                desc.add("the rows are moved before the shapes: a refused shape seek leaves rows moved (%s)" % order)
    ctx.ob("C15.R5", "success path", okp and n_ok >= 1, "; ".join(sorted(desc)) or "seek(shapes, i) then seek(rows, i)", site=site,
           key="C15.R5|success")
    ctx.ob("C15.R5", "refusal path", okf and n_fail >= 1, "; ".join(sorted(desc)) or
           "every failing path starts with the shape seek: when it is refused nothing else has moved", site=site, key="C15.R5|refusal")


def _run(ctx):
    F = ctx.facts("default")
    OFFSET_FIELD[0] = util.index_entry_fields(F)[0]
    if not OFFSET_FIELD[0]:
        ctx.missing("C15.R0", "offset field of the index entry (first big-endian i32 of each parsed entry)")
    ctx.rule("C15.R0", "random access starts with an absolute seek computed from the index entry, so its result does not depend on "
                       "the position left by earlier calls", floor=1)
    ctx.rule("C15.R1", "every state in which iter_shapes_as can be called has the source at byte 100 (the position the new iterator "
                       "assumes), or the iterator re-synchronises the source before its first read", floor=4)
    ctx.rule("C15.R2", "a successful read_nth_shape_as leaves the source at byte 100", floor=1)
    ctx.rule("C15.R3", "shape_count and header have no effect; nothing assigns the reader's index after construction", floor=3)
    ctx.rule("C15.R4", "Reader::seek moves both files to the same index; Reader::shape_count delegates", floor=2)
    ctx.rule("C15.open", "opening a reader consumes exactly the 100 header bytes, so a fresh reader is at byte 100", floor=2)
    srcf, idxf = source_field(F)
    if not srcf or not idxf:
        ctx.missing("C15.R1", "source / index fields of ShapeReader")
        return
    RECV = ('ref', (SELF, (('f', srcf),)))

    # --- open ---------------------------------------------------------------------------------
    for cname in ("new", "with_shx"):
        fs = F.inherent_method("reader::ShapeReader", cname)
        if not fs:
            ctx.missing("C15.open", "ShapeReader::%s" % cname)
            continue
        ps, _ = util.run_fn(F, fs[0], inline=lambda g, t: 'read_index_file' not in g["def"])
        succ = [p for p in ps if is_agg(p.ret, None, 'Ok')]
        good = bool(succ)
        desc = []
        for p in succ:
            try:
                rd = [e for e in p.eff if not (e[0] == 'io' and e[2] != ('param', 1))]
                n = affine.bytes_of([e for e in p.eff if e[0] == 'io' and e[2] == ('param', 1)], 'read')
            except affine.NotAffine as e:
                good = False
                desc.append(str(e))
                continue
            desc.append(affine.show(n))
            if not affine.eq(n, {(): 100}):
                good = False
            r = agg_field(p.ret, '0')
            if not (is_agg(r) and agg_field(r, srcf) == ('param', 1)):
                good = False
                desc.append("the source stored is not the one the header was read from")
        ctx.ob("C15.open", cname, good, "bytes consumed from the .shp source before returning: %s" % desc, site=ctx.site_of(F, fs[0]["def"]),
               key="C15.open|%s" % cname)

    # --- what the new iterator assumes --------------------------------------------------------
    fs = F.inherent_method("reader::ShapeReader", "iter_shapes_as")
    if not fs:
        ctx.missing("C15.R1", "ShapeReader::iter_shapes_as")
        return
    fit = fs[0]
    ps, _ = util.run_fn(F, fit)
    # the iterator's position counter, by role (the field compared with the limit on the index-less None path)
    from .C07 import counter_and_limit
    from .C14 import iterator_next
    nx = iterator_next(F)
    counter_name = None
    if nx:
        c_, l_ = counter_and_limit(util.run_fn(F, nx, fork_fallible=True)[0])
        counter_name = c_[1][0][1] if c_ else None
    if not counter_name:
        ctx.missing("C15.R1", "position counter of the shape iterator")
    believed = set()
    resync = True
    for p in ps:
        r = p.ret
        if not is_agg(r, "reader::ShapeIterator"):
            continue
        cands = [v for k, v in r[4] if v[0] == 'int' or (v[0] == 'cast' and v[1][0] == 'int')]
        for k, v in r[4]:
            if counter_name and k == counter_name:
                believed.add(v)
        sk = [e for e in p.io() if e[1] == 'seek' and e[2] == RECV]
        if not sk:
            resync = False
    assumes_100 = believed == {('int', 100)}
    # does next() re-synchronise unconditionally before its first read?
    from .C14 import iterator_next
    fn = iterator_next(F)
    uncond = False
    if fn:
        psn, _ = util.run_fn(F, fn)
        items = [p for p in psn if is_agg(p.ret, None, 'Some') and is_agg(agg_field(p.ret, '0'), None, 'Ok')]
        uncond = bool(items)
        for p in items:
            ios = p.io()
            first_read = next((i for i, e in enumerate(ios) if e[1] in ('read', 'read_exact')), None)
            seeks_before = [e for e in ios[:first_read] if e[1] == 'seek']
            if not seeks_before:
                uncond = False
    # --- post positions of the methods that can precede an iteration ---------------------------
    posts = {}
    fsk = F.inherent_method("reader::ShapeReader", "seek")
    if fsk:
        ps2, _ = util.run_fn(F, fsk[0])
        posts['seek(k)'] = set(last_position(p, RECV) or 'unchanged' for p in ps2 if is_agg(p.ret, None, 'Ok'))
    else:
        ctx.missing("C15.R1", "ShapeReader::seek")
    frn = F.inherent_method("reader::ShapeReader", "read_nth_shape_as")
    if frn:
        ps3, _ = util.run_fn(F, frn[0], inline=lambda g, t: g["kind"] == "Closure" or not (
        g["def"].startswith(("record::", "header::", "<record::", "<header::")) or "read_one_shape" in g["def"]))
        okp = [p for p in ps3 if is_agg(p.ret, None, 'Some') and is_agg(agg_field(p.ret, '0'), None, 'Ok')
               and not util.infeasible_get_none(p)]
        posts['read_nth_shape_as(i) ok'] = set(last_position(p, RECV) or 'unchanged' for p in okp)
        nonep = [p for p in ps3 if is_agg(p.ret, None, 'None')]
        posts['read_nth_shape_as(i) out of range'] = set(last_position(p, RECV) or 'unchanged' for p in nonep)
        # R0
        good = bool(okp)
        for p in okp:
            first = None
            for e in p.eff:
                if e[0] == 'io' and e[2] == RECV:
                    first = e
                    break
                if e[0] == 'call' and any(absint.contains(a, RECV) or a == RECV for a in e[3]):
                    first = e
                    break
            if first is None or first[0] != 'io' or first[1] != 'seek' or not is_agg(first[4], 'std::io::SeekFrom', 'Start') \
                    or 'offset' not in absint.term_str(first[4]):
                good = False
        ctx.ob("C15.R0", "read_nth_shape_as", good, "first source operation is seek(Start(2*offset[i])) on every successful path",
               site=ctx.site_of(F, frn[0]["def"]), key="C15.R0|read_nth_shape_as")
        ctx.ob("C15.R2", "read_nth_shape_as", posts['read_nth_shape_as(i) ok'] == {'c100'},
               "position after a successful random access: %s" % sorted(posts['read_nth_shape_as(i) ok']),
               site=ctx.site_of(F, frn[0]["def"]), key="C15.R2|read_nth_shape_as")
    else:
        ctx.missing("C15.R2", "ShapeReader::read_nth_shape_as")
    if fn:
        # consuming j >= 1 items leaves the source after the records read; no Drop impl repositions it
        has_drop = any(i["self_ty"].startswith("reader::ShapeIterator") for i in F.trait_impls("std::ops::Drop"))
        posts['iterate j>=1 items then drop the iterator'] = {'after-read'} if not has_drop else {'?'}
        posts['iterate to the end'] = {'after-read'} if not has_drop else {'?'}
    posts['fresh reader'] = {'c100'}
    site = ctx.site_of(F, fit["def"])
    for pre, pos in sorted(posts.items()):
        if pre.startswith('read_nth_shape_as(i) out'):
            ok = pos <= {'unchanged'}
            ctx.ob("C15.R1", pre, ok, "leaves the position unchanged", site=site, key="C15.R1|iter_shapes_as|after:%s" % pre, trivial=True)
            continue
        ok = resync or uncond or (assumes_100 and pos == {'c100'})
        ctx.ob("C15.R1", "iterate after: %s" % pre, ok,
               "source position after `%s` is %s; a new iterator assumes byte %s and %s" % (
                   pre, sorted(pos), sorted(absint.term_str(b) for b in believed),
                   "re-synchronises first" if (resync or uncond) else
                   "reads there without re-synchronising (with an index it seeks only when the index offset differs from the "
                   "position it believes, not from the real one)"),
               site=site, key="C15.R1|iter_shapes_as|after:%s" % pre)
    # --- R3 -----------------------------------------------------------------------------------
    for mname in ("shape_count", "header"):
        fs = F.inherent_method("reader::ShapeReader", mname)
        if not fs:
            ctx.missing("C15.R3", "ShapeReader::%s" % mname)
            continue
        ps4, _ = util.run_fn(F, fs[0])
        eff = [e for p in ps4 for e in absint.flat_effects(p.eff) if e[0] in ('io', 'store', 'push', 'mutate')]
        ctx.ob("C15.R3", mname, not eff and bool(ps4), "%d effects" % len(eff), site=ctx.site_of(F, fs[0]["def"]), key="C15.R3|%s" % mname)
    from .C10 import field_assign_sites
    w = [f["def"] for f, _ in field_assign_sites(F, "reader::ShapeReader", idxf)]
    ctx.ob("C15.R3", "index never reassigned", not w, "assignments to ShapeReader.%s outside construction: %s" % (idxf, w), key="C15.R3|index-writes")
    # --- R4 -----------------------------------------------------------------------------------
    fs = F.inherent_method("reader::Reader", "seek")
    if not fs:
        ctx.missing("C15.R4", "Reader::seek")
    else:
        ps5, _ = util.run_fn(F, fs[0], inline=lambda g, t: False)
        succ = [p for p in ps5 if is_agg(p.ret, None, 'Ok')]
        good = bool(succ)
        for p in succ:
            calls = [e for e in p.eff if e[0] == 'call' and 'seek' in (e[2] or e[1])]
            if len(calls) != 2 or any(c[3][1] != ('param', 2) for c in calls):
                good = False
            targets = [absint.term_str(c[3][0]) for c in calls]
            if len(set(targets)) != 2:
                good = False
        ctx.ob("C15.R4", "Reader::seek", good, "seeks the shape reader and the dbase reader with the same index argument",
               site=ctx.site_of(F, fs[0]["def"]), key="C15.R4|seek")
    fs = F.inherent_method("reader::Reader", "shape_count")
    if fs:
        cs = [mir.callee_decl(t) for _, t in mir.calls(fs[0])]
        ctx.ob("C15.R4", "Reader::shape_count", cs == ["reader::ShapeReader::<T>::shape_count"], "delegates to %s" % cs,
               site=ctx.site_of(F, fs[0]["def"]), key="C15.R4|shape_count")
    else:
        ctx.missing("C15.R4", "Reader::shape_count")
