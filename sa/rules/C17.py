"""C17 — memory requested while reading is proportional to the input size (E5: allocation sinks)."""
from .. import absint, taint, util
from ..absint import is_agg, agg_field
from .C07 import collect_sinks, reader_roots, param_types


def run(ctx):
    F = ctx.facts("default")
    ctx.rule("C17.alloc", "the size argument of every with_capacity / vec![_; n] / reserve on the reader call graph is bounded by a "
                          "constant under the path's guards, or is not derived from the input (one instance per allocation site and role of the count; six functions allocate on the reader graph)", floor=6)
    ctx.rule("C17.grow", "every push inside a loop on the reader graph is paid for by input: the loop performs a fallible read in each "
                         "iteration, or it iterates an in-memory collection (whose length was paid for earlier)", floor=4)
    ctx.assumptions.append("this decides 'no allocation sized by a declared count', a necessary condition of the 64x bound; the "
                           "multiplier itself is a runtime quantity and is not decided")
    sinks, nroots, npaths = collect_sinks(ctx, F, "C17.alloc")
    ctx.extra["reader_roots"] = nroots
    n = 0
    for k, s in sorted(sinks.items()):
        if s.kind != 'alloc':
            continue
        n += 1
        in_memory = set(s.keyrole.split('+')) <= {'len', 'const'}
        ok = not (s.hazard and s.tainted) or in_memory
        if in_memory:
            s.detail = "sized by the length of a collection already in memory"
        ctx.ob("C17.alloc", "%s :: %s" % (s.fn, s.role), ok,
               "%s — the count comes from the input (%s) and is not bounded before the allocation: a few bytes can request "
               "gigabytes" % (s.detail, s.keyrole) if not ok else "bounded / not input-derived: %s" % s.detail,
               site=ctx.site_of_sitetuple(F, s.site), key="C17.alloc|%s|%s|%s" % (s.fn, s.op, s.keyrole))
    # --- grow -----------------------------------------------------------------------------------
    seen = set()
    for f, pol in reader_roots(F):
        try:
            I = absint.Interp(F, inline=pol)
            ps = I.run(f)
        except absint.Unanalysable as e:
            continue
        for p in ps:
            for lp in [e for e in absint.flat_effects(p.eff) if e[0] == 'loop']:
                info, bodies = lp[2], lp[3]
                fn = info.get('fn')
                pushes = [e for b in bodies for e in b['eff'] if e[0] == 'push']
                if not pushes:
                    continue
                it = info.get('iter')
                base = it
                while base is not None and base[0] in ('map', 'into_iter'):
                    base = base[1]
                kind = 'unknown'
                if base is not None:
                    if base[0] in ('iter', 'zip', 'windows', 'vecarr') or (base[0] == 'agg' and base[1] in F.adts and
                                                                           any(v[0] == 'ref' for _, v in base[4])):
                        kind = 'in-memory collection'
                    elif is_agg(base) and base[1].startswith('std::ops::Range'):
                        kind = 'count'
                    elif base[0] in ('lv', 'load', 'proj', 'param', 'app', 'ret'):
                        kind = 'in-memory collection' if info.get('kind') == 'for' and 'Range' not in absint.term_str(base) else 'unknown'
                reads_each = all(any(e[0] == 'io' and e[1] in ('read', 'read_exact') for e in absint.flat_effects(b['eff']))
                                 for b in bodies) and bool(bodies)
                ok = kind == 'in-memory collection' or reads_each
                key = "C17.grow|%s|%s" % (fn, kind)
                if key in seen and ok:
                    continue
                seen.add(key)
                ctx.ob("C17.grow", "loop in %s (%s-driven)" % (fn, kind), ok,
                       "%d push site(s); %s" % (len(pushes), "each iteration performs a fallible read" if reads_each else
                                                ("iterates an in-memory collection" if ok else "growth not paid for by input bytes")),
                       site=ctx.site_of_sitetuple(F, info['site']), key=key)
