"""C17 — memory requested while reading is proportional to the input size (E5: allocation sinks)."""
from .. import absint, taint, util
from ..absint import is_agg, agg_field
from .C07 import collect_sinks, reader_roots, param_types


def run(ctx):
    F = ctx.facts("default")
    ctx.rule("C17.alloc", "the size argument of every with_capacity / vec![_; n] / reserve on the reader call graph is bounded by a "
                          "constant under the path's guards, or is not derived from the input (one instance per allocation site and role of the count; six functions allocate on the reader graph; a shared helper may merge their instances)", floor=4)
    ctx.rule("C17.grow", "every push inside a loop on the reader graph is paid for by input: the loop performs a fallible read in each "
                         "iteration, or it iterates an in-memory collection (whose length was paid for earlier)", floor=4)
    ctx.assumptions.append("this decides 'no allocation sized by a declared count', a necessary condition of the 64x bound; the "
                           "multiplier itself is a runtime quantity and is not decided")
    sinks, nroots, npaths = collect_sinks(ctx, F, "C17.alloc")
    ctx.extra["reader_roots"] = nroots
    n = 0
    for k, s in sorted(sinks.items()):
        if s.kind != 'alloc':
            continue
        n += 1
        in_memory = set(s.keyrole.split('+')) <= {'len', 'const'}
        ok = not (s.hazard and s.tainted) or in_memory
        if in_memory:
            s.detail = "sized by the length of a collection already in memory"
        ctx.ob("C17.alloc", "%s :: %s" % (s.fn, s.role), ok,
               "%s — the count comes from the input (%s) and is not bounded before the allocation: a few bytes can request "
               "gigabytes" % (s.detail, s.keyrole) if not ok else "bounded / not input-derived: %s" % s.detail,
               site=ctx.site_of_sitetuple(F, s.site), key="C17.alloc|%s|%s|%s" % (s.fn, s.op, s.keyrole))
    # --- backed ---------------------------------------------------------------------------------
    ctx.rule("C17.backed", "a reservation sized by a declared count (even a capped one) is backed before the next one is made: the loop "
                           "that follows it reads exactly that count of elements (so a count not backed by data fails on its first "
                           "missing element), or iterates data already in memory", floor=3)

    def peel(t):
        while isinstance(t, tuple) and t:
            if t[0] in ('imin', 'imax'):
                t = t[1] if t[1][0] != 'int' else t[2]
            elif t[0] == 'cast':
                t = t[1]
            elif t[0] == 'tryfrom':
                t = t[1]
            elif t[0] == 'app' and len(t[2]) == 1:
                t = t[2][0]             # a pure local helper of the count (the capacity helper): the count it was given
            else:
                break
        return t

    def in_memory(it):
        base = it
        while base is not None and base[0] in ('map', 'into_iter', 'enumerate', 'skip'):
            base = base[1]
        if base is None:
            return False
        if base[0] in ('iter', 'zip', 'windows', 'vecarr', 'lv', 'load', 'proj', 'param'):
            return not (is_agg(base) and base[1].startswith('std::ops::Range'))
        return is_agg(base) and base[1] in F.adts          # a local iterator struct over arrays already read (part iterator)

    seen_b = {}

    def scan(effs, fn_of, in_loop=False):
        effs = list(effs)
        for i, e in enumerate(effs):
            if e[0] == 'loop':
                for bd in e[3]:
                    scan(bd['eff'], fn_of, True)
            if e[0] != 'alloc':
                continue
            n = e[2]
            leaf = peel(n)
            if leaf[0] == 'int' or leaf[0] == 'len':
                continue                                # a constant, or the length of something already in memory
            nxt = next((x for x in effs[i + 1:] if x[0] == 'loop'), None)
            key = "C17.backed|%s|%s" % (e[4], taint.describe(leaf, 40) if hasattr(taint, 'describe') else absint.term_str(leaf)[:40])
            if nxt is None and in_loop:
                ok, later = False, None
                why = "reserved once per iteration of a loop and not filled within that iteration: the reservations of all iterations " \
                      "pile up before any element is read"
            elif nxt is None:
                later = [x for x in effs[i + 1:] if x[0] == 'alloc' and peel(x[2])[0] not in ('int', 'len')]
                ok = not later
                why = "nothing else is reserved or read after it on this path (the call returns)" if ok else \
                    "another declared-count reservation follows before any element was read"
            if nxt is not None:
                it = nxt[2].get('range') or nxt[2].get('iter')
                if is_agg(it) and it[1].startswith('std::ops::Range'):
                    end = peel(agg_field(it, 'end'))
                    ok = end == leaf
                    why = "filled by a loop of exactly the reserved count" if ok else \
                        "reserved for %s but filled by a loop of %s elements" % (absint.term_str(leaf)[:50], absint.term_str(end)[:50])
                elif it is not None and in_memory(nxt[2].get('iter')):
                    ok, why = True, "filled from data already in memory"
                else:
                    ok, why = False, "the loop after the reservation is not recognised (%s)" % absint.term_str(it)[:50]
            prev = seen_b.get(key)
            if prev is None or (prev[0] and not ok):
                seen_b[key] = (ok, why, e[3], e[4])

    for f_, pol in reader_roots(F):
        try:
            for p in absint.Interp(F, inline=pol).run(f_):
                scan(p.eff, f_["def"])
        except absint.Unanalysable:
            continue
    for key, (ok, why, site, fn_) in sorted(seen_b.items()):
        ctx.ob("C17.backed", "%s :: %s" % (fn_.split("::")[-1], key.split("|")[-1]), ok, why, site=ctx.site_of_sitetuple(F, site), key=key)
    # --- grow -----------------------------------------------------------------------------------
    seen = set()
    for f, pol in reader_roots(F):
        try:
            I = absint.Interp(F, inline=pol)
            ps = I.run(f)
        except absint.Unanalysable as e:
            continue
        for p in ps:
            for lp in [e for e in absint.flat_effects(p.eff) if e[0] == 'loop']:
                info, bodies = lp[2], lp[3]
                fn = info.get('fn')
                pushes = [e for b in bodies for e in b['eff'] if e[0] == 'push']
                if not pushes:
                    continue
                it = info.get('iter')
                base = it
                while base is not None and base[0] in ('map', 'into_iter'):
                    base = base[1]
                kind = 'unknown'
                if base is not None:
                    if base[0] in ('iter', 'zip', 'windows', 'vecarr') or (base[0] == 'agg' and base[1] in F.adts and
                                                                           any(v[0] == 'ref' for _, v in base[4])):
                        kind = 'in-memory collection'
                    elif is_agg(base) and base[1].startswith('std::ops::Range'):
                        kind = 'count'
                    elif base[0] in ('lv', 'load', 'proj', 'param', 'app', 'ret'):
                        kind = 'in-memory collection' if info.get('kind') == 'for' and 'Range' not in absint.term_str(base) else 'unknown'
                reads_each = all(any(e[0] == 'io' and e[1] in ('read', 'read_exact') for e in absint.flat_effects(b['eff']))
                                 for b in bodies) and bool(bodies)
                ok = kind == 'in-memory collection' or reads_each
                key = "C17.grow|%s|%s" % (fn, kind)
                if key in seen and ok:
                    continue
                seen.add(key)
                ctx.ob("C17.grow", "loop in %s (%s-driven)" % (fn, kind), ok,
                       "%d push site(s); %s" % (len(pushes), "each iteration performs a fallible read" if reads_each else
                                                ("iterates an in-memory collection" if ok else "growth not paid for by input bytes")),
                       site=ctx.site_of_sitetuple(F, info['site']), key=key)
