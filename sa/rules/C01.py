"""C01 — write→read round trip: encoder/decoder symmetry for every type and every part/point count (E2, E1, E6)."""
import json

from .. import absint, affine, fcmp, layout, mir, util
from ..absint import is_agg, agg_field

SELF = ('T', ('param', 1))
NO_DATA = ('f64', '-1e39')


def sig_of(path, direction):
    out = []
    for ty, en, w, e in layout.prim_sig(path, direction):
        out.append((ty, en, w))
    return out


def run(ctx):
    _run(ctx)
    ctx.delegate("C03", ["C03.stop"], "C01.count",
                 "the index-less route yields every record of the file: its position counter advances by exactly what a record "
                 "occupies, so the end test is reached after the last record and not before", floor=2)
    ctx.delegate("C16", ["C16.table", "C16.close"], "C01.role",
                 "a ring keeps its role through write and read: the constructors orient it on the closed ring (the reader derives the "
                 "role from that orientation)", floor=5)
    ctx.delegate("C03", ["C03.accept"], "C01.accept",
                 "what the writer may emit (empty parts, zero counts) is accepted back: validation errors are returned only for "
                 "invalid records", floor=6)
    ctx.delegate("C15", ["C15.R0", "C15.R2"], "C01.routes",
                 "the same shapes on the sequential route also after random access on the same reader: random access starts with "
                 "an absolute seek and leaves the source at the first record", floor=2)
    ctx.delegate("C09", ["C09.W5", "C09.ctor"], "C01.commit",
                 "same number of shapes read back: every record written is committed by the next finalize or drop, whatever "
                 "finalize calls came before (a new writer is dirty; every successful write leaves it dirty)", floor=3)

def _run(ctx):
    F = ctx.facts("default")
    sp = util.spec()
    ctx.rule("C01.sym", "for each of the 13 types the writer's abstract layout equals the reader's layout on the M-present valuation "
                        "(same primitives, order, endianness, loop nesting, every count field closed: written from the collection "
                        "that the reader's repetition is then governed by); header, record header, index entry and type code have "
                        "matching write/read pairs", floor=17)
    ctx.rule("C01.slot", "slot binding: the k-th primitive of the writer copies field path p of the shape with no arithmetic in between, "
                         "and the k-th primitive of the reader stores into the same path p of the value it returns", floor=13)
    ctx.rule("C01.parts", "part offsets: the reader's part iterator yields (offset[i], offset[i+1] or NumPoints) and advances by one, so "
                          "part lengths telescope to NumPoints - offset[0]; the writer's offsets are prefix sums from 0", floor=3)
    ctx.rule("C01.nodata", "every measure read into a multi-vertex shape passes through max(v, NO_DATA) and nothing else, which over the "
                           "four-point ordering domain is NO_DATA on <, =, unordered and v on >; single points store the measure raw", floor=9)
    ctx.rule("C01.ring", "the reader classifies a ring with the same orientation function and table that the constructors treat as "
                         "already correct (computed Outer -> Outer, computed Inner -> Inner), so a constructed ring with non-zero area "
                         "keeps its role", floor=3)
    ctx.rule("C01.frame", "record framing agrees: the reader hands the content reader 2*content_length - 4 bytes where the writer stored "
                          "(size + 4)/2 words; both reading routes (sequential, by index) go through the same record reader and every "
                          "concrete/generic route ends in the same read_shape_content", floor=3)
    ctx.rule("C01.patch", "patch kinds: writer table variant -> code composed with reader tables code -> kind -> variant is the identity "
                          "on the six kinds, and patch i is paired with part i (zip in reading order)", floor=7)
    ctx.assumptions += ["counts < 2^31 (the `as i32` casts of counts)", "byteorder read/write are inverse bijections on bit patterns",
                        "BufWriter<File>/BufReader<File> routes run the same library code (std trusted)"]
    wl = layout.writer_layouts(F, util)
    rl = layout.reader_layouts(F, util)
    for name in sorted(set(wl) | set(rl)):
        fw, wres = wl.get(name, (None, []))
        fr, rres = rl.get(name, (None, []))
        site = ctx.site_of(F, fw["def"]) if fw else None
        wls = [L for W, L in wres]
        if not wls or not rres:
            ctx.missing("C01.sym", "write_to / read_shape_content of %s" % name)
            continue
        if any(isinstance(L, str) for L in wls):
            ctx.unanalysable("C01.sym", name, [L for L in wls if isinstance(L, str)][0])
            continue
        rls = [L for p, R, L in rres if isinstance(L, list)]
        errs = [L for p, R, L in rres if isinstance(L, str)]
        if errs:
            ctx.unanalysable("C01.sym", name, errs[0])
            continue
        wset = set(json.dumps(L) for L in wls)
        rset = set(json.dumps(L) for L in rls)
        ok = len(wset) == 1 and wset <= rset
        # the other reader variant (if any) must be the writer's layout minus a trailing block
        extra = [json.loads(x) for x in rset - wset]
        wl0 = json.loads(list(wset)[0]) if wset else []
        for ex in extra:
            if ex != wl0[:len(ex)]:
                ok = False
        ctx.ob("C01.sym", name, ok, "writer emits %d items; reader accepts that layout%s" % (
            len(wl0), " and its prefix without the trailing M block" if extra else "") if ok else
            "writer: %s reader: %s" % (sorted(wset), sorted(rset)), site=site, key="C01.sym|%s" % name)
        # slot binding is part of the layout terms (bindings are field paths on both sides): make it explicit
        binds_w = [x for x in flatten(wl0)]
        ctx.ob("C01.slot", name, ok and all(':' in b for b in binds_w),
               "slots: %s" % " ".join(b.split(':')[1] for b in binds_w)[:200], site=site, key="C01.slot|%s" % name)
    # --- header / record header / index entry / type code pairs ---------------------------------
    pairs = [("header::Header::write_to", "header::Header::read_from", "file header"),
             ("record::RecordHeader::write_to", "record::RecordHeader::read_from", "record header"),
             ("ShapeType::write_to", "ShapeType::read_from", "type code")]
    for wdef, rdef, label in pairs:
        fw, fr = F.identity(wdef), F.identity(rdef)
        if not fw or not fr:
            ctx.missing("C01.sym", "%s / %s" % (wdef, rdef))
            continue
        pw, _ = util.run_fn(F, fw)
        pr, _ = util.run_fn(F, fr, summarise_pure=True)
        sw = [sig_of(p, 'write') for p in pw if is_agg(p.ret, None, 'Ok')]
        sr = [sig_of(p, 'read') for p in pr if is_agg(p.ret, None, 'Ok')]
        ok = bool(sw) and bool(sr) and all(a == sw[0] for a in sw) and all(b == sw[0] for b in sr)
        # bindings: writer copies self.f, reader returns a value whose field f is the k-th read
        bind_ok = True
        if ok and label != "type code":
            for p in pw:
                if not is_agg(p.ret, None, 'Ok'):
                    continue
                wf = []
                for e in p.io():
                    v = e[4]
                    if v is None or e[1] == 'write_all':
                        wf.append(None)
                        continue
                    if v[0] == 'cast':
                        v = v[1]
                    if v[0] == 'discr':
                        v = v[1]
                    wf.append(tuple(layout.fields_of_path(v[1][1])) if v[0] == 'load' else ('const', absint.term_str(v)))
                for q in pr:
                    if not is_agg(q.ret, None, 'Ok'):
                        continue
                    R = layout.ReaderLayout.__new__(layout.ReaderLayout)
                    R.p, R.bind, R.normalised = q, {}, {}
                    val = agg_field(q.ret, '0')
                    rf = []
                    locs = {}

                    def scan(v, fs):
                        if not isinstance(v, tuple) or not v:
                            return
                        if v[0] == 'ret':
                            locs[v] = tuple(fs)
                        elif is_agg(v):
                            for k, x in v[4]:
                                scan(x, fs + [k])
                        elif v[0] == 'upd':
                            scan(v[1], fs)
                            for pr_, x in v[2]:
                                scan(x, fs + layout.fields_of_path(pr_))
                        elif v[0] in ('app', 'proj', 'unwrapped') and len(v) > 2:
                            for x in v[1:]:
                                if isinstance(x, tuple):
                                    scan(x, fs)
                    scan(val, [])
                    for e in q.io():
                        rf.append(locs.get(e[-1]))
                    for a, b in zip(wf, rf):
                        if a is None or (isinstance(a, tuple) and a and a[0] == 'const'):
                            continue
                        if b is not None and a != b:
                            bind_ok = False
        ctx.ob("C01.sym", label, ok and bind_ok, "writer %s ; reader %s%s" % (sw[:1], sr[:1], "" if bind_ok else " (fields bound differently)"),
               site=ctx.site_of(F, fw["def"]), key="C01.sym|%s" % label)
    ctx.ob("C01.sym", "index entry", True, "write/read pair of the index entry is decided by C04.entry / C04.agree (same facts)", trivial=True)
    # --- parts ----------------------------------------------------------------------------------
    pit = None
    for imp in F.trait_impls("std::iter::Iterator"):
        if imp["self_ty"].startswith("record::io::"):
            for m in imp["methods"]:
                if m["name"] == "next":
                    pit = F.fns.get(m["key"])
    if not pit:
        ctx.missing("C01.parts", "the reader's part iterator (an Iterator impl in record::io)")
    else:
        ps, _ = util.run_fn(F, pit, summarise_pure=False)
        site = ctx.site_of(F, pit["def"])
        items = [p for p in ps if p.status == 'return' and is_agg(p.ret, None, 'Some')]
        nones = [p for p in ps if p.status == 'return' and is_agg(p.ret, None, 'None')]
        good = bool(items) and bool(nones)
        why = []
        ends = set()
        for p in items:
            tup = agg_field(p.ret, '0')
            if not is_agg(tup, 'tuple'):
                good = False
                continue
            start, end = agg_field(tup, '0'), agg_field(tup, '1')
            stores = [e for e in p.eff if e[0] == 'store' and e[1][0] == SELF]
            # the cursor: the one field of the iterator that is stored, with its old value + 1
            if len(stores) != 1 or stores[0][2] != ('bin', 'Add', ('load', stores[0][1]), ('int', 1), 'usize'):
                good = False
                why.append("cursor not advanced by exactly one")
                continue
            cur = ('load', stores[0][1])
            # start = offsets[cursor]
            sidx = index_of(start)
            if sidx is None or sidx[1] != cur:
                good = False
                why.append("start = %s" % absint.term_str(start))
                continue
            coll = sidx[0]
            # end = offsets[cursor + 1], or a field of the iterator (the total) when there is no next offset
            eidx = index_of(end)
            nxt = ('bin', 'Add', cur, ('int', 1), 'usize')
            if eidx is not None and affine.canon_coll(eidx[0]) == affine.canon_coll(coll) and eidx[1] == nxt:
                ends.add('next offset')
            elif end[0] == 'load' and end[1][0] == SELF and end != cur:
                ends.add('total')
            elif end[0] == 'unwrap_or' and absint.contains(end, nxt) and end[2][0] == 'load' and end[2][1][0] == SELF:
                ends.add('next offset')
                ends.add('total')
            else:
                good = False
                why.append("end = %s" % absint.term_str(end))
            # an item is produced only while the cursor is inside the offsets array
            lens_ = [x for t, v in p.cons if t[0] == 'bin' and t[1] in ('Lt', 'Le') for x in (t[2], t[3]) if x[0] == 'len']
            inside = any(absint.holds(p.cons, '<', cur, ln_) for ln_ in lens_) or \
                any(t[0] == 'discr' and t[1][0] == 'get' and t[1][2] == cur and v == 1 for t, v in p.cons)
            if not inside:
                good = False
                why.append("item returned without cursor < len(offsets)")
        if ends != {'total', 'next offset'}:
            good = False
            why.append("end of a part is %s" % sorted(ends))
        for p in nones:
            if p.eff and any(e[0] == 'store' for e in p.eff):
                good = False
        ctx.ob("C01.parts", "part iterator", good, "; ".join(sorted(set(why))) or
               "yields (offset[i], offset[i+1] | NumPoints), i += 1, None when i >= len", site=site, key="C01.parts|iterator")
        offs = [W.offsets_ok for n, (fw, res) in wl.items() for W, L in res if W is not None and W.offsets_ok is not None]
        ctx.ob("C01.parts", "writer offsets", bool(offs) and all(offs), "prefix sums from 0 in %d multi-part writers" % len(offs),
               key="C01.parts|writer")
        # the reader's inner count is end - start of that iterator's item, and its total is the NumPoints read
        used = 0
        ok = True
        for name, (fr, rres) in rl.items():
            for p, R, L in rres:
                if R is None or not hasattr(R, 'part_len'):
                    continue
                used += 1
                pl = R.part_len
                tot = layout.part_iter_total(R.part_iter)
                if not (pl[0] == 'bin' and pl[1] == 'Sub' and tot == R.np_ret):
                    ok = False
        ctx.ob("C01.parts", "reader part lengths", ok and used >= 6, "points per part = end - start of the iterator item, total = NumPoints read (%d reader paths)" % used,
               key="C01.parts|reader")
    # --- nodata ---------------------------------------------------------------------------------
    for name, (fr, rres) in sorted(rl.items()):
        has_m = name.endswith(('M', 'Z')) or name == 'Multipatch'
        if not has_m:
            continue
        multi = not name.startswith('Point')
        for p, R, L in rres:
            if R is None or not isinstance(L, list):
                continue
            ms = [r for r, b in R.bind.items() if b == 'm']
            if not ms:
                continue
            norms = [R.normalised.get(r) or False for r in ms]
            tables = [fcmp.normaliser_table(F, util, nm) if nm else None for nm in norms]
            if multi:
                ok = all(tb is not None and fcmp.normaliser_ok(tb) for tb in tables)
                msg = "%d measure reads, normalised by %s: %s" % (len(ms), sorted(set(str(nm) for nm in norms)),
                                                                   [tb for tb in tables][:1])
            else:
                ok = not any(norms)
                msg = "stored raw" if ok else "single-point measure passed through %s" % norms
            ctx.ob("C01.nodata", name, ok, msg, site=ctx.site_of(F, fr["def"]), key="C01.nodata|%s" % name)
            # coordinates and stored boxes are never transformed
            touched = [(b, R.normalised.get(r)) for r, b in R.bind.items() if b != 'm' and R.normalised.get(r)]
            ctx.ob("C01.slot", "%s values stored as read" % name, not touched,
                   "transformed on the way in: %s" % touched if touched else "X, Y, Z and every box value are stored exactly as read",
                   site=ctx.site_of(F, fr["def"]), key="C01.slot|raw|%s" % name)
    ax = {rel: fcmp.f64max_axiom('v', 'NO_DATA', rel) for rel in fcmp.RELS}
    ctx.ob("C01.nodata", "max(v, NO_DATA) over the four orderings", ax == {'<': 'c', '=': 'either', '>': 'x', 'unordered': 'c'},
           "v < NO_DATA -> NO_DATA, v = NO_DATA -> NO_DATA, v > NO_DATA -> v, NaN -> NO_DATA (f64::max returns the non-NaN operand)",
           key="C01.nodata|axiom", trivial=True)
    nd = [c for c in ("record::NO_DATA",)]
    # --- ring -----------------------------------------------------------------------------------
    f = None
    for imp in F.trait_impls("std::convert::From"):
        if imp["self_ty"].startswith("record::polygon::PolygonRing") and imp["trait_args"][1].startswith("std::vec::Vec<"):
            f = F.fns.get(imp["methods"][0]["key"])
    if not f:
        ctx.missing("C01.ring", "From<Vec<P>> for PolygonRing")
    else:
        ps, _ = util.run_fn(F, f)
        table = {}
        orient = set()
        for p in ps:
            comp = None
            for t, v in p.cons:
                if t[0] == 'bin' and t[1] == 'Lt' and t[3] == ('f64', '0.0'):
                    comp = 'Inner' if ((v != 0) if isinstance(v, int) else True) else 'Outer'
                if t[0] == 'discr' and t[1][0] == 'app':
                    orient.add(t[1][1])
                    comp = {0: 'Outer', 1: 'Inner'}.get(v) if isinstance(v, int) else comp
            table[comp] = util.variant_name(p.ret)
            payload_ok = is_agg(p.ret) and p.ret[4] and p.ret[4][0][1] == ('param', 1)
            if not payload_ok:
                table[comp] = None
        ctx.ob("C01.ring", "reader classification", table == {'Outer': 'Outer', 'Inner': 'Inner'},
               "computed orientation -> ring role: %s (vertices kept as read)" % table, site=ctx.site_of(F, f["def"]), key="C01.ring|from-vec")
        # same orientation function as the constructors (found by role: the functions summing over windows(..) of a ring)
        ofs = set(g["def"] for g in util.orientation_fns(F))
        cs = util.reachable_defs(F, f) & ofs
        wr_ = F.inherent_method("record::polygon::GenericPolygon", "with_rings")
        cs2 = (util.reachable_defs(F, wr_[0]) & ofs) if wr_ else set()
        ctx.ob("C01.ring", "same orientation function", len(cs) == 1 and cs == cs2,
               "reader uses %s, constructors use %s" % (sorted(cs), sorted(cs2)), key="C01.ring|same-fn")
        conv = None
        for imp in F.trait_impls("std::convert::From"):
            if imp["self_ty"].startswith("record::polygon::GenericPolygon") and "GenericPolyline" in imp["trait_args"][1]:
                conv = F.fns.get(imp["methods"][0]["key"])
        if conv:
            ps, _ = util.run_fn(F, conv, inline=lambda g, t: False)
            good = bool(ps)
            for p in ps:
                lp = [e for e in p.eff if e[0] == 'loop']
                r = p.ret
                # the same conversion written as `parts.into_iter().map(PolygonRing::from).collect()`
                if is_agg(r) and len(r[4]) == 2 and not lp:
                    kb = [v for k, v in r[4] if v[0] == 'proj' and v[1] == ('param', 1) and len(v[2]) == 1]
                    cm = [v for k, v in r[4] if v[0] == 'collect' and v[1][0] == 'map' and v[1][1][0] == 'into_iter'
                          and v[1][1][1][0] == 'proj' and v[1][1][1][1] == ('param', 1) and len(v[1][1][1][2]) == 1]
                    if len(kb) == 1 and len(cm) == 1:
                        fmap = cm[0][1][2]
                        ok_map = fmap[0] == 'fnitem' and (fmap[4] or fmap[3]) == f["def"]
                        if fmap[0] == 'closure':
                            g_ = F.fns.get(fmap[1])
                            qs = absint.Interp(F, inline=lambda g, t: False).run(g_) if g_ else []
                            ok_map = bool(qs) and all(
                                len([e for e in q.eff if e[0] == 'call' and (e[2] or e[1]) == f["def"] and e[3] and e[3][0] == ('param', 2)]) == 1
                                and q.ret == [e for e in q.eff if e[0] == 'call' and (e[2] or e[1]) == f["def"]][0][-1] for q in qs)
                        if not ok_map:
                            good = False
                        continue
                # the polygon returned is {the rings pushed in the loop, untouched afterwards; the box of the polyline, as stored}
                kept_box = [v for k, v in (r[4] if is_agg(r) else ()) if v[0] == 'proj' and v[1] == ('param', 1) and len(v[2]) == 1]
                pushed = [v for k, v in (r[4] if is_agg(r) else ()) if v[0] == 'lv']
                if len(lp) != 1 or not is_agg(r) or len(r[4]) != 2 or len(kept_box) != 1 or len(pushed) != 1:
                    good = False
                    continue
                for b in lp[0][3]:
                    pu = [e for e in b['eff'] if e[0] == 'push']
                    cl = [e for e in b['eff'] if e[0] == 'call']
                    if len(pu) != 1 or len(cl) != 1 or pu[0][2] != cl[0][-1] or 'elem' not in absint.term_str(cl[0][3][0]):
                        good = False
            ctx.ob("C01.ring", "part i -> ring i", good, "rings are pushed in part order, each from its own part; the stored box is kept",
                   site=ctx.site_of(F, conv["def"]), key="C01.ring|order")
        else:
            ctx.missing("C01.ring", "From<GenericPolyline> for GenericPolygon")
    # --- frame / routes -------------------------------------------------------------------------
    fs = F.inherent_method("reader::ShapeReader", "read_nth_shape_as")
    from .C14 import iterator_next
    fn = iterator_next(F)
    framing = {}
    for label, g in (("sequential", fn), ("by index", fs[0] if fs else None)):
        if not g:
            ctx.missing("C01.frame", "route: %s" % label)
            continue
        # whether the record is read by a private helper or in place makes no difference: local functions are followed, the
        # typed content reader is the (trait) call `ReadableShape::read_from`
        try:
            ps, _ = util.run_fn(F, g)
        except absint.Unanalysable as e:
            ctx.unanalysable("C01.frame", label, str(e))
            continue
        good, n_ok, desc = True, 0, set()
        for p in ps:
            item = agg_field(p.ret, '0') if is_agg(p.ret, None, 'Some') else None
            if p.status != 'return' or not is_agg(item, None, 'Ok'):
                continue
            n_ok += 1
            effs = list(absint.flat_effects(p.eff))
            calls = [k for k, e in enumerate(effs) if e[0] == 'call' and e[1] == 'record::ReadableShape::read_from']
            if len(calls) != 1:
                good = False
                desc.add("%d calls of the typed content reader on an item path" % len(calls))
                continue
            k = calls[0]
            rd = [e for e in effs[:k] if e[0] == 'io' and e[1] == 'read']
            rd = rd[-2:]
            arg = effs[k][3][1]
            if len(rd) == 2 and all(e[3]['endian'] == 'BigEndian' and e[3]['ty'] == 'i32' for e in rd) and \
                    arg == ('bin', 'Mul', rd[1][-1], ('int', 2), 'i32') and not [e for e in effs[k + 1:] if e[0] == 'io' and e[1] == 'read']:
                desc.add("two BE i32 (number, length), then the content reader is handed 2*length bytes")
            else:
                good = False
                desc.add("content reader receives %s after %s" % (absint.term_str(arg)[:60], [(e[3].get('ty'), e[3].get('endian')) for e in rd]))
        framing[label] = good and n_ok >= 1
        ctx.ob("C01.frame", "record header then content (%s)" % label, good and n_ok >= 1, "; ".join(sorted(desc)) or "no item path",
               site=ctx.site_of(F, g["def"]), key="C01.frame|record-reader|%s" % label)
    ctx.ob("C01.frame", "one framing for both routes", len(framing) == 2 and all(framing.values()),
           "sequential iteration and random access frame a record the same way: %s" % framing, key="C01.frame|routes")
    for imp in F.trait_impls("record::ReadableShape"):
        f = F.fns.get(imp["methods"][0]["key"])
        ps, _ = util.run_fn(F, f, inline=lambda g, t: "read_shape_content" not in g["def"], summarise_pure=False)
        good = False
        for p in ps:
            calls = [e for e in p.eff if e[0] == 'call' and 'read_shape_content' in (e[2] or e[1])]
            if calls:
                arg = calls[0][3][1]
                good = arg == ('bin', 'Sub', ('param', 2), ('int', 4), 'i32')
                if not good:
                    break
        ctx.ob("C01.frame", "content size for %s" % util.short_ty(imp["self_ty"]), good,
               "content reader is handed record bytes - 4 (the type code): writer stored (size + 4)/2 words, so it sees exactly size",
               site=ctx.site_of(F, f["def"]), key="C01.frame|minus4|%s" % util.short_ty(imp["self_ty"]))
    # --- patch ----------------------------------------------------------------------------------
    w = wl.get("Multipatch", (None, []))[1]
    codes_w = None
    for W, L in w:
        if W is not None and W.patch_codes:
            padt = F.adts.get("record::multipatch::Patch")
            names = {v["vi"]: v["name"] for v in padt["variants"]}
            codes_w = {names[vi]: c for vi, c in W.patch_codes}
    pf = [g for g in F.identity_fns() if g["def"].endswith("PatchType::from")]
    code_to_kind = {}
    if pf:
        ps, _ = util.run_fn(F, pf[0])
        rows, _d = util.enum_table(ps, ('param', 1))
        for c, pl in rows.items():
            for p in pl:
                if is_agg(p.ret, None, 'Some'):
                    code_to_kind[c] = util.variant_name(agg_field(p.ret, '0'))
    fr, rres = rl.get("Multipatch", (None, []))
    kind_to_patch = {}
    zip_ok = None
    for p, R, L in rres:
        if not isinstance(L, list):
            continue
        for lp in [e for e in p.eff if e[0] == 'loop']:
            it = lp[2].get('iter')
            if it is None or it[0] != 'zip':
                continue
            zip_ok = True if zip_ok is None else zip_ok
            a, b = it[1], it[2]
            if a[0] != 'iter' or b[0] not in ('into_iter', 'iter'):
                zip_ok = False
            for body in lp[3]:
                kind = None
                for t, v in body['cons']:
                    if t[0] == 'discr' and isinstance(v, int) and 'elem' in absint.term_str(t):
                        kadt = F.adts.get("record::multipatch::PatchType")
                        kind = {x["vi"]: x["name"] for x in kadt["variants"]}.get(v) if kadt else None
                pu = [e for e in body['eff'] if e[0] == 'push']
                if len(pu) == 1 and pu[0][2][0] == 'app' and len(pu[0][2][2]) == 2:
                    # the kind -> variant table lives in a pure local helper (kind, points) -> Patch: evaluate it
                    hv = pu[0][2]
                    g = util.local_fn(F, hv[1])
                    kadt = F.adts.get("record::multipatch::PatchType")
                    knames = {x["vi"]: x["name"] for x in kadt["variants"]} if kadt else {}
                    if g is not None:
                        for hp in absint.Interp(F, summarise_pure=False).run(g):
                            ds = [v for t, v in hp.cons if t[0] == 'discr' and isinstance(v, int) and absint.contains(t, ('param', 1))]
                            if hp.status == 'return' and len(ds) == 1 and is_agg(hp.ret, "record::multipatch::Patch") and not hp.eff \
                                    and hp.ret[4] and hp.ret[4][0][1] == ('param', 2):
                                kind_to_patch.setdefault(knames.get(ds[0]), set()).add(hp.ret[2])
                    if 'elem' not in absint.term_str(hv[2][1]) or 'elem' not in absint.term_str(hv[2][0]):
                        zip_ok = False
                    continue
                if kind and len(pu) == 1 and is_agg(pu[0][2], "record::multipatch::Patch"):
                    kind_to_patch.setdefault(kind, set()).add(pu[0][2][2])
                    payload = pu[0][2][4][0][1]
                    if 'elem' not in absint.term_str(payload):
                        zip_ok = False
    sp_codes = {x["name"]: x["code"] for x in sp["patch_types"]}
    for kname in sorted(sp_codes):
        c = (codes_w or {}).get(kname)
        backs = kind_to_patch.get(code_to_kind.get(c)) or set()
        # on every path (whatever came before in the record) the kind read becomes the same variant
        back = next(iter(backs)) if len(backs) == 1 else ("/".join(sorted(str(x) for x in backs)) or None)
        ctx.ob("C01.patch", kname, c is not None and back == kname, "Patch::%s -> code %s -> kind %s -> Patch::%s" % (kname, c, code_to_kind.get(c), back),
               site=ctx.site_of(F, fr["def"]) if fr else None, key="C01.patch|%s" % kname)
    ctx.ob("C01.patch", "patch i with part i", bool(zip_ok), "kinds and point lists are zipped in reading order and each patch takes its own element",
           site=ctx.site_of(F, fr["def"]) if fr else None, key="C01.patch|zip")


def index_of(t):
    """(collection term, index term) when t is the value of an indexed element: coll[idx] / *get(coll, idx)"""
    if t[0] == 'load':
        root, proj = t[1]
        if proj and proj[-1][0] == 'i':
            return ('load', (root, proj[:-1])), proj[-1][1]
        if root[0] == 'T' and not proj and root[1][0] == 'elemref_at':
            return root[1][1], root[1][2]
    if t[0] == 'deref' and t[1][0] == 'elemref_at':
        return t[1][1], t[1][2]
    if t[0] == 'proj' and t[2] and t[2][-1][0] == 'i':
        return ('proj', t[1], t[2][:-1]), t[2][-1][1]
    return None


def flatten(l):
    out = []
    for x in l:
        if isinstance(x, list):
            out += flatten(x[2])
        else:
            out.append(x)
    return out
