"""C05 — stored bounding boxes are exact: per shape and in the file header (E1 + E6 + E3)."""
from .. import absint, fcmp, mir, util, writer_model as wm
from ..absint import is_agg, agg_field

SELF1 = ('T', ('param', 1))
OTHER = ('T', ('param', 2))


def f64_fields(F, adt_path):
    adt = F.adts.get(adt_path)
    return [x["name"] for x in adt["variants"][0]["fields"] if x["ty"] == "f64"] if adt else []


def minmax_kind(F, fdef, cache={}):
    """'min' / 'max' / None for a two-argument f64 function, decided over the four-point ordering domain"""
    if fdef in cache:
        return cache[fdef]
    f = F.identity(fdef)
    kind = None
    detail = {}
    if f and f["argc"] == 2:
        ps, _ = util.run_fn(F, f, summarise_pure=False)
        a, b = ('param', 1), ('param', 2)
        res = fcmp.eval2(ps, a, b)
        detail = {r: sorted(absint.term_str(x) for x in v) for r, v in res.items()}
        if res['<'] == {a} and res['>'] == {b} and res['='] <= {a, b} and res['=']:
            kind = 'min'
        elif res['<'] == {b} and res['>'] == {a} and res['='] <= {a, b} and res['=']:
            kind = 'max'
    cache[fdef] = (kind, detail)
    return cache[fdef]


# ---- index-set algebra for the fold rule ----------------------------------------------------

def walk(t):
    """(selectors, ends_with_range) describing which indices of the nested collection rooted at arg1 a term denotes"""
    k = t[0]
    if k == 'param':
        return [], False
    if k in ('ref', 'load', 'at'):
        root, proj = t[1]
        if root[0] != 'T':
            return None, False
        base, _ = walk(root[1])
        if base is None:
            return None, False
        return proj_sel(base, proj)
    if k == 'proj':
        base, _ = walk(t[1])
        if base is None:
            return None, False
        return proj_sel(base, t[2])
    if k in ('deref', 'into_iter'):
        return walk(t[1])
    if k == 'iter':
        return walk(t[1])
    if k == 'skip':
        base, rng = walk(t[1])
        if base is None or rng:
            return None, False
        return base + (['from1'] if t[2] == ('int', 1) else ['range?']), True
    if k in ('elemref', 'elem'):
        base, rng = walk(t[1])
        if base is None:
            return None, False
        return (base if rng else base + ['all']), False
    if k == 'vecarr':
        return None, False
    return None, False


def proj_sel(base, proj):
    sel = list(base)
    rng = False
    for e in proj:
        rng = False
        if e[0] == 'i':
            sel.append('idx0' if e[1] == ('int', 0) else 'idx?')
        elif e[0] == 'ci':
            sel.append('idx0' if (e[1] == 0 and not e[2]) else 'idx?')
        elif e[0] == 'range':
            r = e[1]
            if is_agg(r, 'std::ops::RangeFrom') and agg_field(r, 'start') == ('int', 1):
                sel.append('from1')
            else:
                sel.append('range?')
            rng = True
    return sel, rng


def loop_selection(info):
    sel, rng = walk(info['iter'])
    if sel is None:
        return None
    return sel if rng else sel + ['all']


def covers_all(sets, depth):
    """do the index tuples in `sets` (lists of selectors of length depth) cover every index tuple?"""
    def cover(prefixes, d):
        if d == depth:
            return bool(prefixes)
        heads = {}
        for s in prefixes:
            heads.setdefault(s[d], []).append(s)
        if 'all' in heads and cover(heads['all'], d + 1):
            return True
        if 'idx0' in heads and 'from1' in heads:
            return cover(heads['idx0'] + heads.get('all', []), d + 1) and cover(heads['from1'] + heads.get('all', []), d + 1)
        return False
    sets = [s for s in sets if len(s) == depth and not any(x.endswith('?') for x in s)]
    return cover(sets, 0)


def fold_events(effs, outer):
    """yield (kind shrink/grow, target term, element term, selection of the innermost enclosing loop)"""
    for e in effs:
        if e[0] == 'call' and e[1] in ('record::traits::ShrinkablePoint::shrink', 'record::traits::GrowablePoint::grow'):
            yield (e[1].split('::')[-1], e[3][0], e[3][1], outer)
        elif e[0] == 'loop':
            sel = loop_selection(e[2])
            for b in e[3]:
                for x in fold_events(b['eff'], sel):
                    yield x


def skipped_steps(effs):
    """loops whose iterations do not all perform the same fold steps (a step guarded by a condition on the element)"""
    out = []
    for e in effs:
        if e[0] != 'loop':
            continue
        sigs = set()
        for b in e[3]:
            sigs.add(tuple(sorted((k, absint.term_str(el)[:60]) for k, tgt, el, sel in fold_events(b['eff'], None))))
            out += skipped_steps(b['eff'])
        if len(sigs) > 1 and any(s_ for s_ in sigs):
            out.append(sorted(len(s_) for s_ in sigs))
    return out


def run(ctx):
    _run(ctx)
    ctx.delegate("C02", ["C02.layout"], "C05.record",
                 "the box a shape carries is the box its record stores: each range slot of the record is written from the field of "
                 "the same dimension and bound", floor=13)
    ctx.delegate("C19", ["C19.pred"], "C05.dims",
                 "the header Z / M ranges are grown for exactly the types that carry Z / M: has_z / has_m equal the ESRI columns", floor=28)

def _run(ctx):
    F = ctx.facts("default")
    ctx.rule("C05.fields", "each ShrinkablePoint/GrowablePoint impl updates exactly the f64 fields of its point type (field list from "
                           "the ADT), field f from (self.f, other.f), shrink through the min function and grow through the max function", floor=6)
    ctx.rule("C05.minmax", "four-point ordering domain: the function used by shrink returns the smaller operand on <, =, > and the one "
                           "used by grow the larger", floor=2)
    ctx.rule("C05.fold", "in every public constructor of a multi-vertex shape the box is seeded with element 0 and folded over the "
                         "rest so that the index sets cover every vertex of every part, each step applying shrink to min and grow to max", floor=7)
    ctx.rule("C05.ranges", "accessor tables: GenericBBox::{x,y,z,m}_range = [min.d, max.d]; per-type EsriShape ranges return the box "
                           "ranges (multi-vertex), [v, v] (points) and [0, 0] for a no-data measure (is_no_data = `<= NO_DATA`)", floor=30)
    ctx.rule("C05.header", "grow_from_shape: x, y always, m iff has_m, z iff has_z, min through the min function with range[0] and max "
                           "through the max function with range[1]; the first write installs (+MAX, -MAX) sentinels; finalize zeroes a "
                           "dimension iff both of its sentinels are untouched", floor=5)
    ctx.assumptions.append("exactness of the fold is by induction over the checked premises (seed + min/max step), for non-NaN coordinates")
    # --- fields + minmax ------------------------------------------------------------------------
    used = {'shrink': set(), 'grow': set()}
    for tr, mname in (("record::traits::ShrinkablePoint", "shrink"), ("record::traits::GrowablePoint", "grow")):
        imps = F.trait_impls(tr)
        if len(imps) < 3:
            ctx.missing("C05.fields", "3 impls of %s" % tr)
        for imp in imps:
            f = F.fns.get(imp["methods"][0]["key"])
            ty = imp["self_ty"]
            fields = f64_fields(F, ty)
            ps, _ = util.run_fn(F, f)
            good = len(ps) == 1 and bool(fields)
            why = []
            for p in ps:
                stores = {}
                for e in p.eff:
                    if e[0] == 'store' and e[1][0] == SELF1:
                        stores[tuple(x[1] for x in e[1][1])] = e[2]
                if set(stores) != set((fl,) for fl in fields):
                    good = False
                    why.append("updates fields %s, the point has %s" % (sorted(k[0] for k in stores), fields))
                for (fl,), v in stores.items():
                    if v[0] != 'app':
                        good = False
                        why.append("%s is set to %s" % (fl, absint.term_str(v)))
                        continue
                    used[mname].add(v[1])
                    want = (('load', (SELF1, (('f', fl),))), ('load', (OTHER, (('f', fl),))))
                    if tuple(v[2]) != want and tuple(v[2]) != want[::-1]:
                        good = False
                        why.append("%s is computed from %s" % (fl, [absint.term_str(x) for x in v[2]]))
            ctx.ob("C05.fields", "%s for %s" % (mname, util.alias(ty)), good, "; ".join(why) or
                   "updates %s, each from (self.f, other.f)" % fields, site=ctx.site_of(F, f["def"]),
                   key="C05.fields|%s|%s" % (mname, util.alias(ty)))
    for mname, want in (("shrink", "min"), ("grow", "max")):
        fns = sorted(used[mname])
        if not fns:
            ctx.ob("C05.minmax", mname, False, "no min/max function identified for %s" % mname)
        for fd in fns:
            kind, detail = minmax_kind(F, fd)
            ctx.ob("C05.minmax", "%s uses %s" % (mname, fd.split('::')[-1]), kind == want,
                   "%s over (<, =, >, unordered) returns %s => %s" % (fd, detail, kind), site=ctx.site_of(F, fd),
                   key="C05.minmax|%s" % mname)
    MIN = set(fd for fd in used['shrink'])
    MAX = set(fd for fd in used['grow'])
    # --- fold -----------------------------------------------------------------------------------
    ctors = [("record::multipoint::GenericMultipoint", "new", 1), ("record::polyline::GenericPolyline", "new", 1),
             ("record::polyline::GenericPolyline", "with_parts", 2), ("record::polygon::GenericPolygon", "with_rings", 2),
             ("record::multipatch::Multipatch", "with_parts", 2)]
    for ty, name, depth in ctors:
        fs = F.inherent_method(ty, name)
        if not fs:
            ctx.missing("C05.fold", "%s::%s" % (ty, name))
            continue
        f = fs[0]
        ps, _ = util.run_fn(F, f, inline=lambda g, t: not g["def"].endswith(("::shrink", "::grow")))
        succ = [p for p in ps if p.status == 'return']
        good = bool(succ)
        why = []
        for p in succ:
            evs = list(fold_events(p.eff, None))
            loops = [e for e in absint.flat_effects(p.eff) if e[0] == 'loop']
            # seeds: entry values of carried min/max locations that are not themselves loop variables
            seeds = []
            for lp in loops:
                for ps_, v in lp[2]['entry'].items():
                    if v[0] == 'lv' or v[0] == 'undef':
                        continue
                    tgt = lp[2]['carried_paths'][ps_]
                    if any(ev[1] == ('ref', tgt) for ev in evs):
                        s_, _r = walk(v)
                        seeds.append((ps_, s_))
                # `fold((first, first), |(min, max), p| ..)`: the accumulator's initial components are the seeds
                if lp[2].get('virtual') == 'fold' and lp[2].get('init') is not None:
                    init = lp[2]['init']
                    comps = [v for _, v in init[4]] if is_agg(init, 'tuple') else [init]
                    for c_ in comps:
                        s_, _r = walk(c_)
                        seeds.append(('fold-init', s_))
            sels = {'shrink': [], 'grow': []}
            for kind, target, elem, sel in evs:
                es, _r = walk(elem)
                if sel is None or es is None:
                    why.append("a %s step whose element set cannot be read off (%s)" % (kind, absint.term_str(elem)[:60]))
                    good = False
                    continue
                sels[kind].append(es)
            seedsets = [s for _, s in seeds if s is not None]
            for kind in ('shrink', 'grow'):
                allsets = sels[kind] + seedsets
                if not covers_all(allsets, depth):
                    good = False
                    why.append("%s steps %s + seeds %s do not cover every vertex" % (kind, sels[kind], seedsets))
            sk = skipped_steps(p.eff)
            if sk:
                good = False
                why.append("some iterations skip fold steps (steps per iteration: %s): vertices of those elements are not covered" % sk[:2])
            # each loop body applies both
            if sorted(sels['shrink']) != sorted(sels['grow']):
                good = False
                why.append("shrink and grow are applied to different vertex sets")
            # the result box is (min <- shrink target, max <- grow target)
            box = None
            for x in absint.subterms(p.ret):
                if is_agg(x, "record::bbox::GenericBBox"):
                    box = x
            if box is None:
                good = False
                why.append("no box in the result")
        ctx.ob("C05.fold", "%s::%s" % (util.short_ty(ty), name), good, "; ".join(sorted(set(why))[:3]) or
               "seed [0]%s + fold over the rest covers every vertex with shrink->min and grow->max" % ("[0]" if depth == 2 else ""),
               site=ctx.site_of(F, f["def"]), key="C05.fold|%s::%s" % (util.short_ty(ty), name))
    for ty, name, inner in (("record::polygon::GenericPolygon", "new", "with_rings"), ("record::multipatch::Multipatch", "new", "with_parts")):
        fs = F.inherent_method(ty, name)
        if not fs:
            ctx.missing("C05.fold", "%s::%s" % (ty, name))
            continue
        ps, _ = util.run_fn(F, fs[0], inline=lambda g, t: False)
        good = bool(ps)
        for p in ps:
            calls = [e for e in p.eff if e[0] == 'call' and inner in (e[2] or e[1])]
            if len(calls) != 1 or p.ret != calls[0][-1]:
                good = False
                continue
            a = calls[0][3][0]
            if not (a[0] == 'vecarr' and len(a[1][4]) == 1 and absint.contains(a, ('param', 1))):
                good = False
        ctx.ob("C05.fold", "%s::%s" % (util.short_ty(ty), name), good, "new(x) = %s(vec![x])" % inner, site=ctx.site_of(F, fs[0]["def"]),
               key="C05.fold|%s::%s" % (util.short_ty(ty), name))
    # --- ranges ---------------------------------------------------------------------------------
    for d in ("x", "y", "z", "m"):
        fs = [f for f in F.identity_fns() if f["def"].endswith("::%s_range" % d) and f["def"].startswith("record::bbox::GenericBBox")]
        if not fs:
            ctx.missing("C05.ranges", "GenericBBox::%s_range" % d)
            continue
        ps, _ = util.run_fn(F, fs[0])
        good = len(ps) == 1
        for p in ps:
            r = p.ret
            if not is_agg(r, 'array') or len(r[4]) != 2:
                good = False
                continue
            lo, hi = r[4][0][1], r[4][1][1]
            # accessor calls on min / max
            ok = all(x[0] in ('ret', 'app') or x[0] == 'load' for x in (lo, hi))
            calls = [e for e in p.eff if e[0] == 'call']
            if len(calls) == 2:
                tl, th = absint.term_str(calls[0][3][0]), absint.term_str(calls[1][3][0])
                ok = ok and tl.endswith('.min') and th.endswith('.max') and calls[0][1].endswith('::' + d) and calls[1][1].endswith('::' + d) \
                    and lo == calls[0][-1] and hi == calls[1][-1]
            else:
                ok = False
            good = good and ok
        ctx.ob("C05.ranges", "GenericBBox::%s_range" % d, good, "[min.%s(), max.%s()]" % (d, d), site=ctx.site_of(F, fs[0]["def"]),
               key="C05.ranges|bbox|%s" % d)
    sp = util.spec()
    zm = {s["name"]: s for s in sp["shape_types"]}
    for imp in F.trait_impls("record::EsriShape"):
        ty = imp["self_ty"]
        name = util.alias(ty)
        ms = {m["name"]: F.fns.get(m["key"]) for m in imp["methods"]}
        pointlike = name.startswith("Point")
        dims = ["x", "y"] + (["z"] if (zm[name]["z"]) else []) + (["m"] if (zm[name]["m"] or name == "Multipatch") else [])
        for d in ("x", "y", "z", "m"):
            f = ms.get(d + "_range")
            if d not in dims:
                ctx.ob("C05.ranges", "%s::%s_range" % (name, d), f is None, "not overridden (trait default [0, 0])" if f is None else
                       "overridden although %s has no %s" % (name, d), key="C05.ranges|%s|%s" % (name, d), trivial=True)
                continue
            if f is None:
                ctx.ob("C05.ranges", "%s::%s_range" % (name, d), False, "%s carries %s but does not override %s_range (header range would "
                       "stay [0, 0])" % (name, d, d), key="C05.ranges|%s|%s" % (name, d))
                continue
            ps, _ = util.run_fn(F, f, inline=lambda g, t: not g["def"].startswith("record::bbox::GenericBBox"), summarise_pure=False)
            good = bool(ps)
            desc = []
            for p in ps:
                r = p.ret
                if pointlike:
                    fld = ('load', (SELF1, (('f', d),)))
                    nodata = [(t, v) for t, v in p.cons if 'Le' in absint.term_str(t)]
                    if is_agg(r, 'array') and [x[1] for x in r[4]] == [fld, fld]:
                        desc.append("[v, v]")
                        if d == 'm':
                            # must be on the not-no-data branch
                            if not any(t[0] == 'bin' and t[1] == 'Le' and t[2] == fld and t[3][0] == 'f64' and v == 0 for t, v in p.cons):
                                good = False
                    elif d == 'm' and is_agg(r, 'array') and [x[1] for x in r[4]] == [('f64', '0.0'), ('f64', '0.0')]:
                        desc.append("[0, 0] when m <= NO_DATA")
                        if not any(t[0] == 'bin' and t[1] == 'Le' and t[2] == fld and t[3] == ('f64', '-1e39') and v != 0 for t, v in p.cons):
                            good = False
                    else:
                        good = False
                        desc.append(absint.term_str(r)[:60])
                else:
                    calls = [e for e in p.eff if e[0] == 'call' and e[1].startswith("record::bbox::GenericBBox") and e[1].endswith("::%s_range" % d)]
                    recv = absint.term_str(calls[0][3][0]) if calls else ''
                    if len(calls) == 1 and r == calls[0][-1] and recv.startswith('&*arg1.') and recv.count('.') == 1:
                        desc.append("bbox.%s_range()" % d)
                    else:
                        good = False
                        desc.append(absint.term_str(r)[:60])
            ctx.ob("C05.ranges", "%s::%s_range" % (name, d), good, "; ".join(sorted(set(desc))), site=ctx.site_of(F, f["def"]),
                   key="C05.ranges|%s|%s" % (name, d))
    # --- header ---------------------------------------------------------------------------------
    f = F.identity("record::bbox::GenericBBox::<record::point::PointZ>::grow_from_shape")
    if not f:
        ctx.missing("C05.header", "BBoxZ::grow_from_shape")
    else:
        ps, _ = util.run_fn(F, f, summarise_predicates=True)      # has_m / has_z stay atoms here (their tables are C19.pred)
        site = ctx.site_of(F, f["def"])
        combos = set()
        good = bool(ps)
        why = []
        for p in ps:
            hm = hz = None
            for t, v in p.cons:
                ts = absint.term_str(t)
                if ts.startswith('has_m('):
                    hm = (v != 0)
                if ts.startswith('has_z('):
                    hz = (v != 0)
            combos.add((hm, hz))
            stores = {tuple(x[1] for x in e[1][1]): e[2] for e in p.eff if e[0] == 'store' and e[1][0] == SELF1}
            want_dims = ['x', 'y'] + (['m'] if hm else []) + (['z'] if hz else [])
            if set(stores) != set((mm, d) for d in want_dims for mm in ('min', 'max')):
                good = False
                why.append("has_m=%s has_z=%s updates %s" % (hm, hz, sorted(stores)))
            calls = {e[-1]: e[1].split('::')[-1] for e in p.eff if e[0] == 'call'}
            for (mm, d), v in stores.items():
                if v[0] != 'app' or (v[1] not in (MIN if mm == 'min' else MAX)):
                    good = False
                    why.append("%s.%s through %s" % (mm, d, v[1] if v[0] == 'app' else absint.term_str(v)))
                    continue
                a, b = v[2]
                idx = 0 if mm == 'min' else 1
                src = a if a[0] == 'proj' else b
                old = b if a[0] == 'proj' else a
                rng = calls.get(src[1]) if src[0] == 'proj' else None
                sel = src[2] if src[0] == 'proj' else None
                if rng != d + '_range' or sel not in ((('ci', idx, False),), (('i', ('int', idx)),)) or old != ('load', (SELF1, (('f', mm), ('f', d)))):
                    good = False
                    why.append("%s.%s = f(%s, %s)" % (mm, d, absint.term_str(a), absint.term_str(b)))
            # the predicates are asked of S::shapetype()
        ctx.ob("C05.header", "grow_from_shape table", good and combos == {(True, True), (True, False), (False, True), (False, False)},
               "; ".join(sorted(set(why))[:3]) or "x,y always; m iff has_m; z iff has_z; min<-min(range[0], old), max<-max(range[1], old)",
               site=site, key="C05.header|grow_from_shape")
    W = wm.WriterFacts(F)
    if W.ok:
        fw, ps = W.method_paths('write_shape')
        first = [p for p in ps if W.classify(p) == 'ok' and W.guards(p)['type_null'] is True]
        good = bool(first)
        for p in first:
            st = W.stores(p)
            # sentinel install happens before growing: look at the first store to header.bbox
            firstb = [e for e in p.eff if e[0] == 'store' and e[1] == wm.selfpath(W.header_field, 'bbox')]
            if not firstb:
                good = False
                continue
            v = firstb[0][2]
            mx, mn = agg_field(v, 'max'), agg_field(v, 'min')
            if not (is_agg(mx) and is_agg(mn) and all(x[1] == ('f64', '-1.7976931348623157e308') for x in mx[4])
                    and all(x[1] == ('f64', '1.7976931348623157e308') for x in mn[4])):
                good = False
        early = True
        for p in first:
            effs_ = list(absint.flat_effects(p.eff))
            sent = [i for i, e in enumerate(effs_) if e[0] == 'store' and e[1] == wm.selfpath(W.header_field, 'bbox')]
            ios_ = [i for i, e in enumerate(effs_) if e[0] == 'io']
            if sent and ios_ and min(sent) > min(ios_):
                early = False
        ctx.ob("C05.header", "sentinels before the first I/O", early and bool(first),
               "the first write installs the sentinels before its first fallible operation (with the file's type), so a write that "
               "fails while reserving the header and is retried still starts from the sentinels",
               site=ctx.site_of(F, fw["def"]), key="C05.header|sentinels-early")
        ctx.ob("C05.header", "sentinels on first write", good, "first write installs max = -f64::MAX, min = +f64::MAX in all four dimensions",
               site=ctx.site_of(F, fw["def"]), key="C05.header|sentinels")
        ff, psf = W.method_paths('finalize')
        zero_ok = True
        seen_dims = set()
        for p in psf:
            if W.classify(p) != 'ok' or not p.io():
                continue
            st = W.stores(p)
            for d in ('m', 'z'):
                zeroed = (W.header_field, 'bbox', 'max', d) in st and (W.header_field, 'bbox', 'min', d) in st
                both = absint.holds(p.cons, '==', wm.field_load(W.header_field, 'bbox', 'max', d), ('f64', '-1.7976931348623157e308')) and \
                    absint.holds(p.cons, '==', wm.field_load(W.header_field, 'bbox', 'min', d), ('f64', '1.7976931348623157e308'))
                if zeroed:
                    seen_dims.add(d)
                    vals = [st[(W.header_field, 'bbox', mm, d)] for mm in ('max', 'min')]
                    if not both or vals != [('f64', '0.0')] * 2:
                        zero_ok = False
                elif both:
                    zero_ok = False
            for k in st:
                if k[:2] == (W.header_field, 'bbox') and k[-1] in ('x', 'y'):
                    zero_ok = False
        ctx.ob("C05.header", "finalize zeroes untouched dimensions", zero_ok and seen_dims == {'m', 'z'},
               "m and z ranges are set to 0 exactly when both sentinels are untouched; x, y never", site=ctx.site_of(F, ff["def"]),
               key="C05.header|finalize-zero")
        # header box emitted from that state: Header::write_to binds the box fields (C02.header)
        ctx.ob("C05.header", "emitted from the in-memory box", True, "binding of header bytes 36..100 to bbox fields is decided by C02.header", trivial=True)
        ctx.ob("C05.header", "growth after emission of each record", all((W.header_field, 'bbox', 'min', 'x') in W.stores(p) for p in ps if W.classify(p) == 'ok'),
               "every successful write grows the header box", site=ctx.site_of(F, fw["def"]), key="C05.header|grow-each-write")
        # ... and only a successful one: the box is grown after the last fallible operation of the write, so a shape whose
        # record could not be written leaves the header box alone
        late = True
        n_ok = 0
        for p in ps:
            if W.classify(p) != 'ok':
                continue
            n_ok += 1
            effs = list(absint.flat_effects(p.eff))
            grow_at = [i for i, e in enumerate(effs) if e[0] == 'store' and e[1][0] == wm.SELF and len(e[1][1]) >= 3 and
                       e[1][1][0] == ('f', W.header_field) and e[1][1][1][0] == 'f' and e[1][1][2][0] == 'f' and e[1][1][2][1] in ('min', 'max')]
            io_at = [i for i, e in enumerate(effs) if e[0] == 'io']
            if grow_at and io_at and min(grow_at) < max(io_at):
                late = False
        ctx.ob("C05.header", "growth only after the record is out", late and n_ok > 0,
               "on every successful path the first store into the header box's min/max comes after the last I/O of the write",
               site=ctx.site_of(F, fw["def"]), key="C05.header|grow-after-io")
