"""C03 — the reader decodes every spec-conformant .shp, including foreign layouts (E2 + E1 + E3)."""
import json

from .. import absint, affine, layout, mir, util
from ..absint import is_agg, agg_field

SELF = ('T', ('param', 1))
NO_DATA = ('f64', '-1e39')


def ne_other(s_):
    """`record_size != X` (either way round) -> X"""
    if s_[0] == 'bin' and s_[1] == 'Ne' and ('param', 2) in (s_[2], s_[3]):
        return s_[3] if s_[2] == ('param', 2) else s_[2]
    return None


def size_terms(p):
    """comparison facts of the path between the record size argument and computed sizes: [(size term, equal?)] — read out of
    ==, != and their combinations with &, |, ! in any arrangement"""
    out = []
    either = []           # disjunctions: one of [(size term, equal?), ...] holds

    def atom(t):
        if t[0] == 'bin' and t[1] in ('Eq', 'Ne') and ('param', 2) in (t[2], t[3]):
            return (t[3] if t[2] == ('param', 2) else t[2]), t[1] == 'Eq'
        return None

    def facts(t, truth):
        """-> list of alternatives, each a list of (size term, equal?)"""
        a = atom(t)
        if a is not None:
            return [[(a[0], a[1] == truth)]]
        if t[0] == 'un' and t[1] == 'Not':
            return facts(t[2], not truth)
        if t[0] == 'bin' and t[1] in ('BitAnd', 'BitOr'):
            l, r = facts(t[2], truth), facts(t[3], truth)
            conj = (t[1] == 'BitAnd') == truth        # (a & b) true, (a | b) false: both sides hold
            if l is None or r is None:
                return (l or r) if conj else None
            if conj:
                return [x + y for x in l for y in r]
            return l + r
        return None
    for t, v in p.cons:
        if t == ('param', 2):
            if isinstance(v, int):
                out.append((('int', v), True))
            else:
                for x in v[1]:
                    out.append((('int', x), False))
            continue
        truth = (v != 0) if isinstance(v, int) else True
        alts = facts(t, truth)
        if not alts:
            continue
        if len(alts) == 1:
            out.extend(alts[0])
        else:
            either.append(alts)
    known = dict(out)
    for alts in either:
        live = [a for a in alts if not any(known.get(x) is not None and known.get(x) != eq for x, eq in a)]
        if len(live) == 1:
            for x, eq in live[0]:
                if x not in known:
                    out.append((x, eq))
                    known[x] = eq
        else:
            out.append(('either', alts))
    return out


def _classify(sym):
    """role of an i32 symbol in a validation test: ('count',) for a declared count (a value read, or a plain field holding one),
    ('offset', 'start'|'end') for an element of the part-offset array at the cursor / at the cursor + 1"""
    if not isinstance(sym, tuple) or not sym:
        return None
    if sym[0] in ('first', 'last') and len(sym) == 2:
        return ('optoffset', 'start' if sym[0] == 'first' else 'end')     # Option<&offset>: None when there are no parts
    st = absint.term_str(sym)
    idx = [x for x in absint.subterms(sym) if isinstance(x, tuple) and x and (x[0] in ('elemref_at', 'at_index', 'index') or
                                                                           (x[0] == 'i' and len(x) == 2))]
    if idx or '[' in st:
        nxt = any(isinstance(x, tuple) and x and x[0] == 'bin' and x[1] == 'Add' and ('int', 1) in (x[2], x[3]) for x in absint.subterms(sym))
        return ('offset', 'end' if nxt else 'start')
    if sym[0] == 'ret' or (sym[0] == 'proj' and len(sym[2]) == 1) or (sym[0] == 'load' and len(sym[1][1]) == 1):
        return ('count',)
    return None


def _int_of(x):
    for _ in range(3):
        if isinstance(x, tuple) and x and x[0] in ('constref', 'ref') and isinstance(x[1], tuple) and x[1] and x[1][0] == 'int':
            return x[1][1]
        if isinstance(x, tuple) and x and x[0] == 'int':
            return x[1]
        return None
    return None


def accept_rule(ctx, F):
    """C03.accept: a validation error is returned only for an invalid record.  The tests compare declared counts and part offsets
    with each other and with 0 only, so a path is decided over the finite set of orderings of those values: no assignment may
    satisfy both the path's atoms and validity (counts >= 0, 0 <= start <= end <= NumPoints)."""
    import itertools
    ctx.rule("C03.accept", "validation errors of the multi-part readers are returned only for invalid records: on every path that "
                           "returns a constructed error, the comparisons taken contradict `counts >= 0 and 0 <= start <= end <= NumPoints` "
                           "(decided over the orderings of the compared values)", floor=4)
    fns = [g for g in F.identity_fns() if g.get("krate") == F.crate and g["def"].startswith("record::io::MultiPartShapeReader")]
    for imp in F.trait_impls("record::ConcreteReadableShape"):
        for m in imp["methods"]:
            g = F.fns.get(m["key"])
            if g is not None and g not in fns:
                fns.append(g)
    D = (-1, 0, 1, 2, 3)
    n = 0
    for f in fns:
        try:
            ps, _ = util.run_fn(F, f, summarise_pure=False)
        except absint.Unanalysable:
            continue
        seen = set()
        for p in ps:
            if p.status != 'return' or not is_agg(p.ret, None, 'Err'):
                continue
            atoms = []
            skip = False
            for t, v in p.cons:
                if t[0] == 'param' or (t[0] == 'bin' and t[1] not in absint.CMP_OPS):
                    skip = True             # the error may stem from another kind of test (record size acceptance: C03.size)
                if t[0] != 'bin' or t[1] not in absint.CMP_OPS:
                    continue
                if str(t[4]) in ('usize',):
                    continue                      # cursor < len(..) of the in-memory array
                ops = []
                for x in (t[2], t[3]):
                    if x[0] == 'int':
                        ops.append(('k', x[1]))
                    elif is_agg(x, 'std::option::Option', 'None'):
                        ops.append(('k', None))
                    elif is_agg(x, 'std::option::Option', 'Some') and _int_of(agg_field(x, '0')) is not None:
                        ops.append(('k', ('some', _int_of(agg_field(x, '0')))))
                    else:
                        c = _classify(x)
                        if c is None:
                            skip = True
                        ops.append(('s', x, c))
                tv = (v != 0) if isinstance(v, int) else True
                atoms.append((t[1], ops[0], ops[1], tv))
            if skip or not atoms:
                continue
            key = repr(atoms)
            if key in seen:
                continue
            seen.add(key)
            syms = []
            for a in atoms:
                for o in a[1:3]:
                    if o[0] == 's' and o[1] not in [y[0] for y in syms]:
                        syms.append((o[1], o[2]))
            witness = None
            doms = [((None,) + tuple(('some', d) for d in D)) if c[0] == 'optoffset' else D for _, c in syms]
            for vals in itertools.product(*doms):
                env = {s_: val for (s_, _), val in zip(syms, vals)}
                if any(op in ('Lt', 'Le') and (not isinstance(env.get(a[1], 0) if a[0] == 's' else a[1], int) or
                                               not isinstance(env.get(b[1], 0) if b[0] == 's' else b[1], int))
                       for op, a, b, tv in atoms):
                    continue                     # an optional value is only ever compared for equality
                def ev(o):
                    return o[1] if o[0] == 'k' else env[o[1]]
                def rel(op, x, y):
                    if op == 'Eq':
                        return x == y
                    if op == 'Ne':
                        return x != y
                    return x < y if op == 'Lt' else x <= y
                if not all(rel(op, ev(a), ev(b)) == tv for op, a, b, tv in atoms):
                    continue
                # validity of this assignment
                cnt = [env[s_] for s_, c in syms if c == ('count',)]
                st_ = [env[s_] for s_, c in syms if c == ('offset', 'start')]
                en_ = [env[s_] for s_, c in syms if c == ('offset', 'end')]
                # an optional offset that is there counts as that offset; one that is not (no parts at all) constrains nothing
                st_ += [env[s_][1] for s_, c in syms if c == ('optoffset', 'start') and env[s_] is not None]
                en_ += [env[s_][1] for s_, c in syms if c == ('optoffset', 'end') and env[s_] is not None]
                valid = all(c >= 0 for c in cnt) and all(x >= 0 for x in st_ + en_)
                valid = valid and all(a <= b for a in st_ for b in en_)
                hi = en_ if en_ else st_          # the last part ends at NumPoints
                valid = valid and all(x <= c for x in hi for c in cnt) and all(x <= c for x in st_ for c in cnt)
                if valid:
                    witness = {absint.term_str(s_)[-40:]: val for (s_, _), val in zip(syms, vals)}
                    break
            n += 1
            inst = "%s :: %s" % (f["def"].split("::")[-1], "; ".join("%s%s(%s, %s)" % ("" if tv else "not ", op,
                                 a[1] if a[0] == 'k' else a[2][-1] if a[2][0] in ('offset', 'optoffset') else 'count',
                                 b[1] if b[0] == 'k' else b[2][-1] if b[2][0] in ('offset', 'optoffset') else 'count')
                                 for op, a, b, tv in atoms))
            ctx.ob("C03.accept", inst, witness is None,
                   "the error is returned only when the record is invalid" if witness is None else
                   "a VALID record is rejected, e.g. %s" % witness, site=ctx.site_of(F, f["def"]),
                   key="C03.accept|%s|%s" % (f["def"].split("::")[-1], inst.split(" :: ")[1]))
    return n


_RANGE = {'i32': (-2 ** 31, 2 ** 31 - 1), 'i64': (-2 ** 63, 2 ** 63 - 1), 'u32': (0, 2 ** 32 - 1), 'u64': (0, 2 ** 64 - 1),
          'usize': (0, 2 ** 64 - 1), 'isize': (-2 ** 63, 2 ** 63 - 1)}


def _ev(t, env):
    """value of an integer / boolean term under env (symbol -> int); None when it is not determined by env"""
    if not isinstance(t, tuple) or not t:
        return None
    if t in env:
        return env[t]
    k = t[0]
    if k == 'int':
        return t[1]
    if k == 'bool':
        return int(t[1])
    if k in ('cast', 'tryfrom'):
        return _ev(t[1], env)
    if k == 'un' and t[1] == 'Not':
        a = _ev(t[2], env)
        return None if a is None else int(not a)
    if k == 'bin' and len(t) >= 4:
        a, b = _ev(t[2], env), _ev(t[3], env)
        if t[1] in ('BitAnd', 'BitOr') and a is not None and b is not None:
            return int(bool(a) and bool(b)) if t[1] == 'BitAnd' else int(bool(a) or bool(b))
        if a is None or b is None:
            return None
        op = t[1]
        if op in ('Add', 'Sub', 'Mul'):
            return a + b if op == 'Add' else a - b if op == 'Sub' else a * b
        if op == 'Rem':
            return None if b == 0 else int(__import__('math').fmod(a, b))
        if op == 'Div':
            return None if b == 0 else int(a / b)
        if op in ('Lt', 'Le', 'Eq', 'Ne', 'Gt', 'Ge'):
            return int({'Lt': a < b, 'Le': a <= b, 'Eq': a == b, 'Ne': a != b, 'Gt': a > b, 'Ge': a >= b}[op])
        return None
    if k == 'discr' and isinstance(t[1], tuple) and t[1] and t[1][0] == 'checked':
        c = t[1]
        a, b = _ev(c[2], env), _ev(c[3], env)
        if a is None or b is None or c[1] not in ('Add', 'Sub', 'Mul'):
            return None
        v = a + b if c[1] == 'Add' else a - b if c[1] == 'Sub' else a * b
        lo, hi = _RANGE.get(str(c[4]), (None, None)) if len(c) > 4 else (None, None)
        if lo is None:
            return None
        return int(lo <= v <= hi)
    return None


def recsize_rule(ctx, F):
    """C03.recsize: before the content reader is called, a record is refused for its declared length only when no record of any
    type can have that length.  The smallest record is the null shape's (2 words: its type code); the tests on the declared
    length are evaluated for sample lengths from that up."""
    ctx.rule("C03.recsize", "the length tests made before a record's content is decoded (record reader, generic and typed "
                            "ReadableShape::read_from) refuse no length a record can have: every path returning an error of its own "
                            "is unsatisfiable for a content length of 2 words (the null shape) and up", floor=2)
    null_ok = any("NullShape" in i["self_ty"] for i in F.trait_impls("record::ConcreteReadableShape"))
    targets = []
    for g in F.identity_fns():
        if g.get("krate") != F.crate or g.get("kind") == "Closure":
            continue
        d = [mir.callee_decl(t) for b, t in mir.calls(g)]
        if "record::RecordHeader::read_from" in d and "record::ReadableShape::read_from" in d:
            targets.append((g, 'words'))
    for imp in F.trait_impls("record::ReadableShape"):
        for m in imp["methods"]:
            g = F.fns.get(m["key"])
            if g is not None and m["name"] == "read_from":
                # the generic value has a null-shape variant; a typed read admits the 4-byte record only if the null shape is typed
                targets.append((g, 'bytes' if null_ok or imp["self_ty"].split("::")[-1] == "Shape" else 'bytes>4'))
    if len(targets) < 3:
        ctx.missing("C03.recsize", "the record reader and the two ReadableShape::read_from (found %d)" % len(targets))
    for g, unit in targets:
        site = ctx.site_of(F, g["def"])
        try:
            # the content readers stay opaque: their own size tests are C03.size's subject
            ps, _ = util.run_fn(F, g, summarise_pure=False,
                                inline=lambda g2, t: not mir.callee_decl(t).endswith("::read_shape_content"))
        except absint.Unanalysable as e:
            ctx.unanalysable("C03.recsize", g["def"], str(e))
            continue
        dom = (2, 3, 10, 22, 2 ** 30 - 1) if unit == 'words' else (4, 6, 20, 44, 2 ** 31 - 2) if unit == 'bytes' else (6, 20, 44, 2 ** 31 - 2)
        unit = unit.split('>')[0]
        refused = {}
        npaths = 0
        for p in ps:
            if p.status != 'return' or not is_agg(p.ret, None, 'Err') or not is_agg(agg_field(p.ret, '0')):
                continue
            if unit == 'words':
                rd = [e[-1] for e in p.io() if e[1] == 'read' and e[3].get('ty') == 'i32']
                sym = rd[1] if len(rd) >= 2 else None
            else:
                sym = ('param', 2)
            if sym is None:
                continue
            atoms = [(t, v) for t, v in p.cons if any(x == sym for x in absint.subterms(t))]
            if not atoms:
                continue
            npaths += 1
            for val in dom:
                ok = True
                for t, v in atoms:
                    x = _ev(t, {sym: val})
                    if x is None:
                        ok = None
                        break
                    want = (x == v) if isinstance(v, int) else (x not in v[1]) if isinstance(v, tuple) and v and v[0] == 'not' else None
                    if want is None:
                        ok = None
                        break
                    if not want:
                        ok = False
                        break
                if ok:
                    refused.setdefault(val, absint.term_str(agg_field(p.ret, '0'))[:50])
        bad = refused
        ctx.ob("C03.recsize", g["def"].split("::")[-1] + (" (typed)" if "<S" in g["def"] or "impl" in g["def"] else ""), not bad,
               "%d error path(s) test the declared length; none is taken for a length of %s %s" % (npaths, list(dom), unit) if not bad else
               "a record whose declared content length is %s %s is refused with %s%s" % (
                   sorted(bad)[0], unit, bad[sorted(bad)[0]], " (the null shape's record is exactly that long)" if sorted(bad)[0] in (2, 4) else ""),
               site=site, key="C03.recsize|%s" % g["def"])


def run(ctx):
    _run(ctx)
    recsize_rule(ctx, ctx.facts("default"))
    ctx.delegate("C01", ["C01.ring", "C01.patch"], "C03.rings",
                 "rings and patches are decoded as stored: vertices in stored order whatever the winding, the role from the winding "
                 "alone, ring i from part i, each patch kind as its own variant", floor=8)
    accept_rule(ctx, ctx.facts("default"))


def _run(ctx):
    F = ctx.facts("default")
    sp = util.spec()
    ctx.rule("C03.layout", "for each of the 13 types the reader's abstract layouts are exactly the ESRI layout with the optional M block "
                           "and (where ESRI makes it optional) without it: same primitives, endianness, bindings of every value to the "
                           "field it lands in, repetitions governed by the count fields just read", floor=13)
    ctx.rule("C03.size", "the record size the reader computes from the counts equals the ESRI byte count for both variants (linear forms "
                         "over NumParts/NumPoints); the M block is read exactly when the declared size equals the with-M size, the record "
                         "is rejected exactly when it equals neither", floor=20)
    ctx.rule("C03.absent", "when the M block is absent every point's measure is NO_DATA: it is created as NO_DATA (Default / explicit) and "
                           "no measure is stored afterwards; present measures of multi-vertex shapes go through max(v, NO_DATA)", floor=10)
    ctx.rule("C03.dispatch", "generic reads dispatch on all 14 codes (C06.dispatch), the null shape consumes nothing, and multipatch part "
                             "kinds decode with the ESRI table 0..5, any other code being InvalidPatchType(code)", floor=8)
    ctx.rule("C03.lenient", "the reader validates nothing the spec leaves free: no constructor that indexes [0] or asserts a minimum "
                            "length is reachable from any reader entry point; the record number is read and not used", floor=3)
    ctx.rule("C03.stop", "without an index the iteration ends exactly when the position counter reaches twice the declared length, "
                         "without touching the source; the counter advances by 8 + 2*content length per record", floor=3)
    ctx.trusted = ["spec/esri.json transcribed from the ESRI whitepaper", "rustc MIR", "byteorder read_X decode the named endianness"]
    rl = layout.reader_layouts(F, util)
    if len(rl) < 13:
        ctx.missing("C03.layout", "13 impls of ConcreteReadableShape")
    for name, (fr, res) in sorted(rl.items()):
        spec_l = sp["layouts"].get(name)
        site = ctx.site_of(F, fr["def"]) if fr else None
        if spec_l is None:
            ctx.ob("C03.layout", name, False, "no ESRI layout for %s" % name)
            continue
        wm_, wo = layout.spec_variants(spec_l)
        opt = layout.has_optional(spec_l)
        found = set()
        errs = []
        for p, R, L in res:
            if L is None:
                continue
            if isinstance(L, str):
                errs.append(L)
            elif L == wm_:
                found.add('with-M')
            elif opt and L == wo:
                found.add('without-M')
            else:
                errs.append("a path decodes %s" % json.dumps(L))
        want = {'with-M', 'without-M'} if opt else {'with-M'}
        if errs and any(e.startswith("unanalysable") for e in errs):
            ctx.unanalysable("C03.layout", name, errs[0])
            continue
        ctx.ob("C03.layout", name, not errs and found == want, "; ".join(errs)[:400] or "decodes %s" % sorted(found), site=site,
               key="C03.layout|%s" % name)
        # --- size + acceptance --------------------------------------------------------------------
        ssz = sp["sizes"][name]
        for p, R, L in res:
            if not isinstance(L, list):
                continue
            variant = 'with-M' if L == wm_ else 'without-M'
            st = size_terms(p)
            eqs = [x for x, eq in st if eq is True and x != 'either']
            neqs = [x for x, eq in st if eq is False and x != 'either']
            want_const = ssz["const"] + (ssz.get("m", {}).get("const", 0) if (variant == 'with-M') else 0)
            want_pts = ssz["points"] + (ssz.get("m", {}).get("points", 0) if (variant == 'with-M') else 0)
            want_parts = ssz["parts"]
            if not opt:
                want_const, want_pts = ssz["const"], ssz["points"]
            ok = False
            why = "size atoms on the path: %s" % [(absint.term_str(x)[:50], e) for x, e in st if x != 'either'][:4]
            for x in eqs:
                try:
                    form = affine.lin(x)
                except affine.NotAffine as e:
                    why = str(e)
                    continue
                cc = form.get((), 0)
                syms = {k: v for k, v in form.items() if k != ()}
                np_sym = affine.strip_sites(R.np_ret) if R is not None and getattr(R, 'np_ret', None) else None
                npa_sym = affine.strip_sites(R.nparts_ret) if R is not None and getattr(R, 'nparts_ret', None) else None
                # identify coefficients by which read they multiply (positions: NumParts is read before NumPoints)
                coefs = sorted(syms.values())
                got_pts = got_parts = 0
                if not syms:
                    pass
                elif want_parts == 0:
                    got_pts = sum(syms.values())
                else:
                    # two counts read by the same primitive kind: tell them apart through the reader layout roles
                    vals = list(syms.values())
                    got_pts, got_parts = None, None
                    # the symbol set collapses identical `ret<read_i32>`; use the un-stripped term instead
                    form2 = lin_keep_sites(x)
                    for k, v in form2.items():
                        if k == ():
                            continue
                        if R is not None and contains_ret(k, R.np_ret):
                            got_pts = (got_pts or 0) + v
                        elif R is not None and contains_ret(k, R.nparts_ret):
                            got_parts = (got_parts or 0) + v
                    got_pts, got_parts = got_pts or 0, got_parts or 0
                if (cc, got_parts, got_pts) == (want_const, want_parts, want_pts):
                    ok = True
                    why = "declared size == %d + %d*NumParts + %d*NumPoints" % (cc, got_parts, got_pts)
                else:
                    why = "accepted when size == %d + %d*NumParts + %d*NumPoints, ESRI says %d + %d*NumParts + %d*NumPoints" % (
                        cc, got_parts, got_pts, want_const, want_parts, want_pts)
            if variant == 'without-M' and opt:
                # must also carry: size != with-M size
                pass
            ctx.ob("C03.size", "%s %s" % (name, variant), ok, why, site=site, key="C03.size|%s|%s" % (name, variant))
        rej = [p for p, R, L in res if L is None and p is not None and p.status == 'return' and is_agg(p.ret, None, 'Err')
               and is_agg(agg_field(p.ret, '0'), 'Error', 'InvalidShapeRecordSize')]
        ok = bool(rej)
        for p in rej:
            st = size_terms(p)
            if any(eq is True for x, eq in st if x != 'either'):
                ok = False
        ctx.ob("C03.size", "%s rejection" % name, ok, "InvalidShapeRecordSize only when the declared size equals none of the computed sizes (%d paths)" % len(rej),
               site=site, key="C03.size|%s|reject" % name)
        # --- absent / nodata ------------------------------------------------------------------------
        has_m_field = name.endswith(('M', 'Z')) or name == 'Multipatch'
        if has_m_field:
            for p, R, L in res:
                if not isinstance(L, list):
                    continue
                variant = 'with-M' if L == wm_ else 'without-M'
                multi = not name.startswith('Point')
                if variant == 'without-M':
                    mstores = [e for e in absint.flat_effects(p.eff) if e[0] == 'store' and layout.fields_of_path(e[1][1])[-1:] == ['m']
                               and not layout.box_binding(layout.fields_of_path(e[1][1]))]
                    created = []
                    for e in absint.flat_effects(p.eff):
                        if e[0] == 'push' and is_agg(e[2]) and agg_field(e[2], 'm') is not None:
                            created.append(agg_field(e[2], 'm'))
                    r = agg_field(p.ret, '0')
                    if is_agg(r) and agg_field(r, 'm') is not None:
                        created.append(agg_field(r, 'm'))
                    ok = not mstores and bool(created) and all(c == NO_DATA for c in created)
                    ctx.ob("C03.absent", "%s without M" % name, ok,
                           "points are created with m = %s and %d later stores to m" % (sorted(set(absint.term_str(c) for c in created)), len(mstores)),
                           site=site, key="C03.absent|%s" % name)
                elif multi:
                    from .. import fcmp
                    ms = [r_ for r_, b in R.bind.items() if b == 'm']
                    tabs = [fcmp.normaliser_table(F, util, R.normalised.get(r_)) if R.normalised.get(r_) else None for r_ in ms]
                    ok = bool(ms) and all(tb is not None and fcmp.normaliser_ok(tb) for tb in tabs)
                    ctx.ob("C03.absent", "%s present measures normalised" % name, ok,
                           "%d measure reads; normaliser over (<, =, >, NaN): %s" % (len(ms), tabs[:1]), site=site, key="C03.nodata|%s" % name)
                if R is not None:
                    boxes = [(b, R.normalised.get(r_)) for r_, b in R.bind.items() if b.startswith('box.') and R.normalised.get(r_)]
                    ctx.ob("C03.lenient", "%s %s: stored box returned as stored" % (name, variant), not boxes,
                           "box values transformed on the way in: %s" % boxes if boxes else "every box value is stored exactly as read",
                           site=site, key="C03.lenient|box-raw|%s" % name)
    # --- dispatch -------------------------------------------------------------------------------
    f = F.impl_method("record::ReadableShape", "record::Shape", "read_from")
    if f:
        ps, _ = util.run_fn(F, f, inline=lambda g, t: "read_shape_content" not in g["def"], summarise_pure=False)
        codes = set()
        null_paths = []
        for p in ps:
            ios = p.io()
            if not ios:
                continue
            val = util.scrutinee_constraint(p, ios[0][-1])
            if isinstance(val, int):
                codes.add(val)
                if val == 0 and is_agg(p.ret, None, 'Ok'):
                    calls = [e for e in p.eff if e[0] == 'call']
                    null_paths.append(len(ios) == 1 and not calls)
                elif val == 0 and not any(t[0] == 'discr' and t[1][0] == 'checked' and v == 0 for t, v in p.cons):
                    null_paths.append(False)        # an error for a null shape that is not the (type-independent) size guard
        null_ok = bool(null_paths) and all(null_paths)
        want = set(s["code"] for s in sp["shape_types"])
        ctx.ob("C03.dispatch", "14 codes dispatched", codes == want, "arms for codes %s" % sorted(codes), site=ctx.site_of(F, f["def"]),
               key="C03.dispatch|codes")
        ctx.ob("C03.dispatch", "null shape consumes nothing", null_ok, "code 0: only the 4-byte code is read", site=ctx.site_of(F, f["def"]),
               key="C03.dispatch|null")
    else:
        ctx.missing("C03.dispatch", "<Shape as ReadableShape>::read_from")
    pf = [g for g in F.identity_fns() if g["def"].endswith("PatchType::from")]
    if pf:
        ps, _ = util.run_fn(F, pf[0])
        rows, (excl, dflt) = util.enum_table(ps, ('param', 1))
        for x in sp["patch_types"]:
            got = [util.variant_name(agg_field(p.ret, '0')) for p in rows.get(x["code"], []) if is_agg(p.ret, None, 'Some')]
            ctx.ob("C03.dispatch", "patch code %d" % x["code"], got == [x["name"]], "decodes to %s (ESRI %s)" % (got, x["name"]),
                   site=ctx.site_of(F, pf[0]["def"]), key="C03.dispatch|patch|%d" % x["code"])
        ok = excl is not None and set(excl) == set(x["code"] for x in sp["patch_types"]) and all(is_agg(p.ret, None, 'None') for p in dflt)
        if not ok:
            # the refusal may be spelled as a range test (`(0..=5).contains(&code)`): decide it by evaluating each path's tests
            def feasible(p, val):
                for t, c in p.cons:
                    x = absint.eval_with(t, {('param', 1): val})
                    if x is None:
                        return None
                    if not ((x == c) if isinstance(c, int) else (x not in c[1]) if isinstance(c, tuple) and c and c[0] == 'not' else False):
                        return False
                return True
            valid = [x["code"] for x in sp["patch_types"]]
            nones = [p for p in ps if p.status == 'return' and is_agg(p.ret, None, 'None')]
            somes = [p for p in ps if p.status == 'return' and is_agg(p.ret, None, 'Some')]
            ok = bool(nones) and all(feasible(p, v) is False for p in nones for v in valid) and \
                all(any(feasible(p, v) is True for p in nones) and all(feasible(p, v) is False for p in somes)
                    for v in (-1, max(valid) + 1, max(valid) + 2, 255, 256, 2 ** 31 - 1, -2 ** 31))
        ctx.ob("C03.dispatch", "other patch codes", ok, "every other value is refused", site=ctx.site_of(F, pf[0]["def"]), key="C03.dispatch|patch|other")
        pr = [g for g in F.identity_fns() if g["def"].endswith("PatchType::read_from")]
        if pr:
            ps, _ = util.run_fn(F, pr[0], summarise_pure=False)
            bad = [p for p in ps if is_agg(p.ret, None, 'Err') and not (
                is_agg(agg_field(p.ret, '0'), 'Error', 'InvalidPatchType') and agg_field(agg_field(p.ret, '0'), '0') == p.io()[0][-1])]
            ctx.ob("C03.dispatch", "invalid patch code error", not bad and any(is_agg(p.ret, None, 'Err') for p in ps),
                   "Err(InvalidPatchType(code read))", site=ctx.site_of(F, pr[0]["def"]), key="C03.dispatch|patch|error")
    else:
        ctx.missing("C03.dispatch", "PatchType::from")
    # --- lenient --------------------------------------------------------------------------------
    roots, g = util.reader_graph(F)
    strict = [fn["def"] for fn in util.generic_only(F, g.values())
              if fn["def"].endswith(("::from_points", "::from_parts", "::with_rings", "::with_parts", "GenericPolyline::<PointType>::new",
                                     "GenericPolygon::<PointType>::new", "Multipatch::new", "GenericMultipoint::<PointType>::new"))]
    ctx.ob("C03.lenient", "no indexing constructor on the reader graph", not strict,
           "constructors that index [0] / assert lengths reachable from reader entry points: %s (graph of %d functions)" % (strict, len(g)),
           key="C03.lenient|constructors")
    panicky = []
    for fn in util.generic_only(F, g.values()):
        for b, t in mir.calls(fn):
            if mir.callee_decl(t) in absint.PANIC_DEFS and 'assert' in ",".join(t.get('mac', [])) and 'debug_assert' not in ",".join(t.get('mac', [])):
                panicky.append(fn["def"])
    ctx.ob("C03.lenient", "no assert! on the reader graph", not panicky, "functions with assert!: %s" % sorted(set(panicky)), key="C03.lenient|asserts")
    ro = F.identity("reader::read_one_shape_as")
    if ro:
        ps, _ = util.run_fn(F, ro)
        used = False
        for p in ps:
            ios = p.io()
            if len(ios) >= 2:
                recnum = ios[0][-1]
                for t, v in p.cons:
                    if absint.contains(t, recnum):
                        used = True
                for e in p.eff:
                    if e[0] == 'call' and any(absint.contains(a, recnum) for a in e[3]):
                        used = True
        ctx.ob("C03.lenient", "record number not interpreted", not used, "the record number is read and never compared or passed on",
               site=ctx.site_of(F, ro["def"]), key="C03.lenient|record-number")
    else:
        ctx.ob("C03.lenient", "record number not interpreted", True, "record reader inlined elsewhere", trivial=True)
    # --- stop -----------------------------------------------------------------------------------
    from .C14 import iterator_next, index_field
    fn = iterator_next(F)
    idxf = index_field(F)
    if fn and idxf:
        ps, _ = util.run_fn(F, fn)
        site = ctx.site_of(F, fn["def"])
        idx_discr = ('discr', ('load', (SELF, (('f', idxf),))))
        seq = [p for p in ps if any(t == idx_discr and v != 1 for t, v in p.cons)]
        nones = [p for p in seq if is_agg(p.ret, None, 'None')]
        items = [p for p in seq if is_agg(p.ret, None, 'Some')]
        from .C07 import counter_and_limit
        counter, limit = counter_and_limit(ps)
        def ge(p):
            for t, v in p.cons:
                pass
            if not counter:
                return None
            c_, l_ = ('load', counter), ('load', limit)
            if absint.holds(p.cons, '<=', l_, c_):
                return True
            if absint.holds(p.cons, '<', c_, l_):
                return False
            return None
        ok = bool(nones) and all(ge(p) is True and not p.io() for p in nones) and bool(items) and all(ge(p) is False for p in items)
        ctx.ob("C03.stop", "end of sequential iteration", ok, "None iff counter >= declared length, with no read on that path", site=site,
               key="C03.stop|guard")
        adv = True
        for p in items:
            if not is_agg(agg_field(p.ret, '0'), None, 'Ok'):
                continue
            st = [e for e in p.eff if e[0] == 'store' and e[1] == counter]
            if not st:
                adv = False
                continue
            try:
                form = affine.lin(st[-1][2])
            except affine.NotAffine:
                adv = False
                continue
            cc = form.get((), 0)
            rest = {k: v for k, v in form.items() if k != ()}
            if cc != 8 or sorted(rest.values()) != [1, 2]:
                adv = False
        ctx.ob("C03.stop", "counter advance", adv, "counter = counter + 8 + 2*content length after each record", site=site, key="C03.stop|advance")
    else:
        ctx.missing("C03.stop", "ShapeIterator::next")
    fs = F.inherent_method("reader::ShapeReader", "iter_shapes_as")
    if fs:
        ps, _ = util.run_fn(F, fs[0])
        ok = bool(ps)
        lim_name = limit[1][0][1] if (fn and idxf and limit) else 'length'
        for p in ps:
            r = p.ret
            fl = [v for k, v in r[4] if k == lim_name] if is_agg(r) else []
            try:
                form = affine.lin(fl[0]) if fl else None
            except affine.NotAffine:
                form = None
            if form is not None and not form:
                form = {(): 0}
            if form is not None and list(form) == [()] and form[()] == 0:
                # limit 0 (nothing to iterate) is right exactly when the declared length is not positive
                neg = any(t[0] == 'bin' and t[1] in ('Le', 'Lt') and 'file_length' in absint.term_str(t)
                          and ('int', 0) in (t[2], t[3]) for t, v in p.cons)
                if not neg:
                    ok = False
                continue
            if not form or form.get((), 0) != 0 or list(v for k, v in form.items() if k != ()) != [2] or 'file_length' not in affine.show(form):
                ok = False
        ctx.ob("C03.stop", "declared length in bytes", ok, "the iterator's limit is 2 * header.file_length", site=ctx.site_of(F, fs[0]["def"]),
               key="C03.stop|limit")
    else:
        ctx.missing("C03.stop", "ShapeReader::iter_shapes_as")


def contains_ret(sym, ret):
    return ret is not None and absint.contains(sym, ret)


def lin_keep_sites(t):
    """linear form whose symbols keep their call sites (to tell two reads of the same kind apart)"""
    k = t[0]
    if k == 'int':
        return {(): t[1]}
    if k == 'cast':
        return lin_keep_sites(t[1])
    if k == 'bin' and t[1] in ('Add', 'Sub', 'Mul'):
        a, b = lin_keep_sites(t[2]), lin_keep_sites(t[3])
        if t[1] == 'Add':
            return affine.add(a, b)
        if t[1] == 'Sub':
            return affine.add(a, b, -1)
        if affine.is_const(a):
            return affine.scale(b, a.get((), 0))
        if affine.is_const(b):
            return affine.scale(a, b.get((), 0))
        raise affine.NotAffine("product")
    return {t: 1, (): 0}
