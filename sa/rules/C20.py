"""C20 — geo-types / geo-traits conversions (config `geo`): dispatch tables, coordinate binding, order, nesting, dims."""
from .. import absint, fcmp, mir, util
from ..absint import is_agg, agg_field

SELF = ('T', ('param', 1))
DIM_FIELDS = {'Xy': ['x', 'y'], 'Xyz': ['x', 'y', 'z'], 'Xym': ['x', 'y', 'm'], 'Xyzm': ['x', 'y', 'z', 'm']}
NO_DATA = ('f64', '-1e39')

_IT = ("rev", "skip", "take", "step_by", "filter", "filter_map", "skip_while", "take_while", "last", "nth", "map_while", "scan")
_SL = ("reverse", "sort", "sort_by", "sort_by_key", "sort_unstable", "sort_unstable_by", "sort_unstable_by_key", "swap",
       "rotate_left", "rotate_right", "chunks", "split_at", "split_first", "split_last", "select_nth_unstable")
_VE = ("dedup", "dedup_by", "dedup_by_key", "retain", "truncate", "pop", "remove", "swap_remove", "drain", "insert", "split_off",
       "clear")
REORDER = tuple(["std::iter::Iterator::" + n for n in _IT] + ["core::slice::<impl [T]>::" + n for n in _SL] +
                ["std::slice::<impl [T]>::" + n for n in _SL] +
                ["std::vec::Vec::<T, A>::" + n for n in _VE] + ["std::iter::DoubleEndedIterator::rev", "std::iter::DoubleEndedIterator::next_back"])


def field_of(t):
    """x / y / z / m when t denotes that field of self (directly or through an accessor call), else None"""
    for _ in range(4):
        if t[0] == 'load':
            fs = [e[1] for e in t[1][1] if e[0] == 'f']
            return fs[-1] if fs else None
        if t[0] == 'ret' and isinstance(t[2], str) and t[2].split('::')[-1] in ('x', 'y', 'z', 'm'):
            return t[2].split('::')[-1]
        if t[0] == 'app' and t[1].split('::')[-1] in ('x', 'y', 'z', 'm'):
            return t[1].split('::')[-1]
        return None
    return None


def m_term(paths):
    for p in paths:
        for t, v in p.cons:
            if t[0] == 'bin' and t[1] in ('Le', 'Gt', 'Lt', 'Ge') and t[3] == NO_DATA:
                return t[2]
    return None


def dims_rule(ctx, F):
    impls = [i for i in F.trait_impls("geo_traits::CoordTrait")]
    pimpls = {i["self_ty"]: i for i in F.trait_impls("geo_traits::PointTrait")}
    if len(impls) < 6:
        ctx.missing("C20.dims", "6 impls of geo_traits::CoordTrait (found %d)" % len(impls))
    for imp in impls:
        ty = imp["self_ty"]
        ms = {m["name"]: F.fns.get(m["key"]) for m in imp["methods"]}
        fd, fn = ms.get("dim"), ms.get("nth_or_panic")
        if not fd or not fn:
            ctx.missing("C20.dims", "%s::dim / nth_or_panic" % ty)
            continue
        pd, _ = util.run_fn(F, fd, summarise_pure=False)
        pn, _ = util.run_fn(F, fn, summarise_pure=False)
        mt = m_term(pd) or m_term(pn)
        rels = fcmp.RELS if mt is not None else ('=',)
        for rel in rels:
            dsel = fcmp.select(pd, mt, NO_DATA, rel) if mt is not None else pd
            dnames = set(util.variant_name(p.ret) for p in dsel if p.status == 'return')
            if len(dnames) != 1 or list(dnames)[0] not in DIM_FIELDS:
                ctx.ob("C20.dims", "%s, m %s NO_DATA" % (util.short_ty(ty), rel), False, "dim() = %s" % sorted(map(str, dnames)),
                       site=ctx.site_of(F, fd["def"]), key="C20.dims|%s|dim|%s" % (util.short_ty(ty), rel))
                continue
            dn = list(dnames)[0]
            fields = DIM_FIELDS[dn]
            bad = []
            for i, want in enumerate(fields):
                cand = [p for p in (fcmp.select(pn, mt, NO_DATA, rel) if mt is not None else pn)
                        if any(t == ('param', 2) and v == i for t, v in p.cons)]
                if not cand:
                    bad.append("nth(%d) has no path" % i)
                    continue
                for p in cand:
                    if p.status != 'return':
                        bad.append("nth_or_panic(%d) panics although dim() reports %d dimensions" % (i, len(fields)))
                    elif field_of(p.ret) != want:
                        bad.append("nth_or_panic(%d) returns %s, expected field %s" % (i, absint.term_str(p.ret), want))
            ctx.ob("C20.dims", "%s, m %s NO_DATA" % (util.short_ty(ty), rel), not bad,
                   "dim() = %s; %s" % (dn, "; ".join(bad) if bad else "every index below %d reads the matching field" % len(fields)),
                   site=ctx.site_of(F, fn["def"]), key="C20.dims|%s|%s" % (util.short_ty(ty), rel))
        # PointTrait::dim agrees
        pi = pimpls.get(ty)
        if pi:
            fpd = F.fns.get([m for m in pi["methods"] if m["name"] == "dim"][0]["key"])
            ppd, _ = util.run_fn(F, fpd, summarise_pure=False)
            mt2 = m_term(ppd)
            agree = True
            for rel in rels:
                a = set(util.variant_name(p.ret) for p in (fcmp.select(pd, mt, NO_DATA, rel) if mt is not None else pd))
                b = set(util.variant_name(p.ret) for p in (fcmp.select(ppd, mt2, NO_DATA, rel) if mt2 is not None else ppd))
                if a != b:
                    agree = False
            ctx.ob("C20.dims", "%s PointTrait::dim" % util.short_ty(ty), agree, "PointTrait::dim agrees with CoordTrait::dim on all orderings",
                   site=ctx.site_of(F, fpd["def"]), key="C20.dims|%s|pointtrait" % util.short_ty(ty))


def run(ctx):
    _run(ctx)
    ctx.delegate("C16", ["C16.close"], "C20.closing",
                 "geo-types -> shape -> geo-types keeps the coordinates of every ring: closing appends one copy of the first vertex only "
                 "to a ring that is open", floor=2)

def _run(ctx):
    F = ctx.facts("geo")
    ctx.rule("C20.dims", "for Point, PointM, PointZ and their reference impls, over the four orderings of m against NO_DATA: when "
                         "dim() reports n dimensions, nth_or_panic(i) returns field i of that dimension list without reaching a panic "
                         "for every i < n; PointTrait::dim agrees with CoordTrait::dim", floor=18)
    ctx.rule("C20.dispatch", "TryFrom<Shape> for Geometry and TryFrom<Geometry> for Shape as tables: which variant converts to what and "
                             "which are refused (NullShape, GeometryCollection, Rect/Triangle catch-all); TryFrom<Multipatch> refuses "
                             "strips and fans; refusals are Err with no panic site on the path", floor=20)
    ctx.rule("C20.coords", "point/coord conversions bind x to x and y to y, with defaults z = 0 and m = NO_DATA", floor=12)
    ctx.rule("C20.order", "the collection conversions contain no reordering or dropping adaptor (rev, skip, take, filter, sort, swap, "
                          "retain, truncate, pop, ...) on the coordinate path (blacklist over the conversion call graphs)", floor=8)
    ctx.rule("C20.nest", "hole grouping: an outer ring flushes the pending polygon and opens a new one, an inner ring is pushed to the "
                         "pending polygon; the multipatch conversion uses the same table with (Outer, First) / (Inner, Ring)", floor=6)
    dims_rule(ctx, F)
    from . import C20b
    C20b.run(ctx, F)
    C20b.tag_rule(ctx, F)
