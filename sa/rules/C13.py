"""C13 — truncated or failing sources give errors and only genuine shapes (E3)."""
from .. import absint, discipline, mir, util
from ..absint import is_agg, agg_field

BANNED_READ = {"std::io::Read::read", "std::io::Read::read_vectored", "std::io::Read::read_buf",
               "std::io::Read::read_to_end", "std::io::Read::read_to_string", "std::io::Read::bytes",
               "std::io::Read::take", "std::io::Read::chain"}


def run(ctx):
    _run(ctx)
    ctx.delegate("C03", ["C03.recsize", "C03.dispatch"], "C13.complete",
                 "a complete record is never refused for its length or kind: the length tests made before decoding admit every "
                 "record, the null shape's 2 words included", floor=5)
    ctx.delegate("C03", ["C03.layout", "C03.size"], "C13.layout",
                 "a record is returned only when all the bytes its declared size covers were read: both legal layouts are decoded in "
                 "full, whatever the counts", floor=30)
    ctx.delegate("C07", ["C07.arith", "C07.panics", "C07.progress"], "C13.nopanic",
                 "reading a truncated or failing source never panics: no unchecked arithmetic, index or unwrap on the reader graph, "
                 "also after the first error", floor=40)

def _run(ctx):
    F = ctx.facts("default")
    ctx.rule("C13.errs", "for every fallible call site on the reader call graph: when that call fails (truncated source, "
                         "failing read or seek), every abstract path through it makes the enclosing function return a value "
                         "carrying that error in an error position — Err(..e..) or, for the iterators and read_nth_shape_as, "
                         "Some(Err(..e..)); in particular no error is mapped to None (end of file) and no shape value is "
                         "returned when one of its reads failed (abstract fault enumeration)", floor=60)
    ctx.rule("C13.short", "no call to Read::read / read_vectored / read_buf / read_to_end anywhere in the crate; byteorder's "
                          "ReadBytesExt bodies read through read_exact only, so short reads cannot change what is decoded",
             floor=3)
    ctx.rule("C13.sites", "the reader entry points the property names exist and are on the analysed graph", floor=5)

    roots, g = util.reader_graph(F)
    fns = list(util.generic_only(F, g.values()))      # closures included (see C12)
    names = set(f["def"] for f in fns)
    for want in ("<reader::ShapeIterator<'_, T, S> as std::iter::Iterator>::next", "reader::ShapeReader::<T>::read_nth_shape_as",
                 "reader::ShapeReader::<T>::seek", "header::Header::read_from", "reader::read_one_shape_as",
                 "reader::read_index_file", "record::RecordHeader::read_from", "<S as record::ReadableShape>::read_from",
                 "<record::Shape as record::ReadableShape>::read_from"):
        internal = want in ("reader::read_one_shape_as", "reader::read_index_file")
        present = want in names
        if internal:
            # internal helpers are not anchors: only counted when present
            if present:
                ctx.ob("C13.sites", want, True, "on the reader graph", trivial=True)
            continue
        if not present:
            ctx.missing("C13.sites", want)
        else:
            ctx.ob("C13.sites", want, True, "on the reader graph", trivial=True)
    n = discipline.check(ctx, F, "C13.errs", fns)
    ctx.rule("C13.accum", "no error is lost between iterations: a `fold` over a Result accumulator hands a failed accumulator on, and "
                          "an iterator of Results is never consumed by an adaptor that throws its items away (count, last, for_each, "
                          "nth, max, min, drop); expected instance count on this tree is 0 — the positive control is in the witness crate "
                          "(thorough tier)", floor=0)
    ctx.extra["accumulating_consumers_found"] = discipline.check_accumulators(ctx, F, "C13.accum", fns)
    ctx.extra["fallible_sites_reader"] = n
    ctx.extra["reader_graph_functions"] = len(fns)

    allids = list(F.identity_fns())
    ncalls = discipline.banned_calls(ctx, F, "C13.short", BANNED_READ, allids, "a short read would be taken for a full one")
    ctx.ob("C13.short", "crate-wide ban", True, "%d call sites in %d functions inspected, none is a partial-read API"
           % (ncalls, len(allids)), key="C13.short|crate")
    bo = [f for f in F.fns.values() if f.get("krate") == "byteorder" and "blocks" in f and "ReadBytesExt::read_" in f["def"]]
    used = set()
    for f in F.identity_fns():
        for b, t in mir.calls(f):
            d = mir.callee_decl(t)
            if d and d.startswith("byteorder::ReadBytesExt::"):
                used.add(d)
    for d in sorted(used):
        fs = [f for f in bo if f["def"] == d]
        if not fs:
            ctx.ob("C13.short", d, False, "body of %s not available to the extractor" % d, key="C13.short|%s" % d)
            continue
        outs = set()
        for f in fs:
            for b, t in mir.calls(f):
                dd = mir.callee_decl(t)
                if dd.startswith("std::io::Read::"):
                    outs.add(dd)
        ctx.ob("C13.short", d, outs == {"std::io::Read::read_exact"}, "%s reads through %s" % (d, sorted(outs)),
               key="C13.short|%s" % d)
