"""C09 — any interleaving of writes and finalize yields the same files as drop (E4 typestate + E3 + E7)."""
from .. import absint, mir, util, writer_model as wm
from ..absint import is_agg, agg_field


def build(ctx, F, rule):
    W = wm.WriterFacts(F)
    if not W.ok:
        for pr in W.problems:
            ctx.missing(rule, pr)
        return None, None
    transfers = {}
    for name in ('write_shape', 'finalize'):
        f, ps = W.method_paths(name)
        if f is None:
            ctx.missing(rule, "ShapeWriter::%s" % name)
            return None, None
        transfers[name] = [wm.path_transfer(W, p) for p in ps]
        transfers[name + ':fn'] = f
    return W, transfers


def run(ctx):
    _run(ctx)
    ctx.delegate("C02", ["C02.reclen"], "C09.counters",
                 "finalize leaves the writer's running length and record counter alone (it writes them, it does not recompute them)", floor=3)
    ctx.delegate("C05", ["C05.header", "C05.ranges"], "C09.bbox",
                 "the header box does not depend on when finalize ran: sentinels are reset by the first write, every shape's ranges "
                 "are real values, finalize only zeroes dimensions that were never grown", floor=20)
    ctx.delegate("C10", ["C10.reject"], "C09.reject",
                 "finalize with nothing new to commit performs no I/O: a rejected write changes no state (in particular it does "
                 "not re-arm finalize)", floor=1)

def _run(ctx):
    F = ctx.facts("default")
    ctx.rule("C09.W123", "in every abstract writer state reachable under any history of {write, write(other type), finalize}: "
                         "record bytes are written only at the end of a destination that already holds a header (W1/W3) and a "
                         "header (the 100-byte group starting with the file code) only at offset 0 (W2)", floor=4)
    ctx.rule("C09.W4", "a successful finalize leaves each destination with a current header, cursor at end, flushed, and dirty = false", floor=2)
    ctx.rule("C09.W5", "a successful write leaves dirty = true and both cursors at the end", floor=2)
    ctx.rule("C09.W6", "finalize with nothing to commit reaches its return with no operation on either destination and no store", floor=2)
    ctx.rule("C09.W8", "Drop::drop calls finalize and nothing else; write_shapes is write_shape on each item with `?` (then the "
                       "by-value self is dropped)", floor=2)
    ctx.rule("C09.ctor", "both constructors start with dirty = true, record number 1 and a default header (length 50 words, NullShape)", floor=2)
    ctx.assumptions += ["destinations handed to new/with_shx are empty and positioned at 0 (what from_path creates)",
                        "failure-free histories (failures are C12)"]
    W, tr = build(ctx, F, "C09.W123")
    if W is None:
        return
    fsite = {n: ctx.site_of(F, tr[n + ':fn']["def"]) for n in ('write_shape', 'finalize')}
    total_states = 0
    total_trans = 0
    samples = []
    for has_shx in (False, True):
        seen, findings, ntrans = wm.explore(W, tr, has_shx)
        total_states += len(seen)
        total_trans += ntrans
        tag = "with index" if has_shx else "without index"
        by_inv = {}
        for inv, msg, hist in findings:
            by_inv.setdefault(inv, []).append((msg, hist))
        for s, h in list(seen.items())[:4]:
            samples.append({"history": list(h), "state": wm.fmt_state(s)})
        for inv, rule in (('W123', 'C09.W123'), ('W4', 'C09.W4'), ('W5', 'C09.W5'), ('W6', 'C09.W6'), ('totality', 'C09.W123')):
            fl = by_inv.get(inv, [])
            if not fl:
                ctx.ob(rule, "%s %s: %d states" % (inv, tag, len(seen)), True,
                       "holds in all %d reachable abstract states (%d transitions)" % (len(seen), ntrans), site=fsite['write_shape'])
                continue
            # one finding per distinct message, with its shortest history
            best = {}
            for msg, hist in fl:
                if msg not in best or len(hist) < len(best[msg]):
                    best[msg] = hist
            for msg, hist in best.items():
                last = hist[-1] if hist else ''
                meth = 'finalize' if last == 'finalize' else 'write_shape'
                ctx.ob(rule, "%s %s" % (inv, tag), False, "%s — shortest history: new; %s" % (msg, "; ".join(hist)),
                       site=fsite[meth], key="%s|%s|%s" % (rule, meth, msg.split(' (')[0][:80]))
    ctx.extra["states"] = total_states
    ctx.extra["transitions"] = total_trans
    ctx.extra["histories"] = samples

    # --- W8: drop and write_shapes --------------------------------------------------------------
    drop = None
    for imp in F.trait_impls("std::ops::Drop"):
        if imp["self_ty"].startswith("writer::ShapeWriter"):
            drop = F.fns.get(imp["methods"][0]["key"])
    if not drop:
        ctx.missing("C09.W8", "impl Drop for ShapeWriter")
    else:
        cs = [mir.callee_decl(t) for _, t in mir.calls(drop)]
        stores = [s for b in drop["blocks"] if not b["cleanup"] for s in b["stmts"]
                  if s["k"] == "assign" and any(e["k"] == "deref" for e in s["p"]["proj"])]
        rest = [c for c in cs if c != "writer::ShapeWriter::<T>::finalize"]
        ctx.ob("C09.W8", "Drop::drop", cs.count("writer::ShapeWriter::<T>::finalize") == 1 and all(c in ("std::result::Result::<T, E>::is_err", "std::result::Result::<T, E>::is_ok", "std::result::Result::<T, E>::ok", "std::result::Result::<T, E>::err", "std::mem::drop") for c in rest) and not stores,
               "drop calls %s and stores through self %d times" % (cs, len(stores)), site=ctx.site_of(F, drop["def"]))
    ws = F.inherent_method("writer::ShapeWriter", "write_shapes")
    if not ws:
        ctx.missing("C09.W8", "ShapeWriter::write_shapes")
    else:
        f = ws[0]
        ps, I = util.run_fn(F, f, inline=lambda g, t: False)
        good = True
        why = []
        succ = [p for p in ps if p.status == 'return' and is_agg(p.ret, None, 'Ok')]
        for p in succ:
            loops = [e for e in p.eff if e[0] == 'loop']
            others = [e for e in p.eff if e[0] in ('io', 'store')]
            if len(loops) != 1 or others:
                good = False
                why.append("success path has %d loops and %d direct effects" % (len(loops), len(others)))
                continue
            for b in loops[0][3]:
                calls = [e for e in b['eff'] if e[0] == 'call']
                if [c[1] for c in calls if 'write_shape' in c[1]] != ["writer::ShapeWriter::<T>::write_shape"] or \
                        any(e[0] in ('io', 'store') for e in b['eff']):
                    good = False
                    why.append("loop body does %s" % [c[1] for c in calls])
                # the item written is the element produced by the container's iterator
                for c in calls:
                    if 'write_shape' in c[1] and not (c[3][1][0] in ('elem', 'proj', 'elemref') or absint.contains(c[3][1], ('param', 2))):
                        good = False
                        why.append("write_shape is not given the iterated item")
        # an error from write_shape leaves the loop immediately
        sites = [s for s, w in I.fallible_sites if 'write_shape' in w]
        for s in set(sites):
            ps2, _ = util.run_fn(F, f, inline=lambda g, t: False, fail_site=s)
            for p in ps2:
                if any(e[0] == 'call' and e[4] == s for e in absint.flat_effects(p.eff)) and not is_agg(p.ret, None, 'Err'):
                    good = False
                    why.append("a failing write_shape does not end write_shapes")
        ctx.ob("C09.W8", "write_shapes", good and bool(succ) and bool(sites), "; ".join(why) or
               "loop over the container calling write_shape(item)?; by-value self is dropped at return", site=ctx.site_of(F, f["def"]))

    # --- constructors -------------------------------------------------------------------------
    for cname in ("new", "with_shx"):
        fs = F.inherent_method("writer::ShapeWriter", cname)
        if not fs:
            ctx.missing("C09.ctor", "ShapeWriter::%s" % cname)
            continue
        ps, _ = util.run_fn(F, fs[0], summarise_pure=False)
        ok = bool(ps)
        desc = []
        for p in ps:
            r = p.ret
            if not is_agg(r, "writer::ShapeWriter"):
                ok = False
                desc.append("returns %s" % absint.term_str(r)[:80])
                continue
            hdr = agg_field(r, W.header_field)
            fl = agg_field(hdr, 'file_length') if is_agg(hdr) else None
            stv = util.variant_name(agg_field(hdr, 'shape_type')) if is_agg(hdr) else None
            ver = agg_field(hdr, 'version') if is_agg(hdr) else None
            good = (agg_field(r, W.dirty_field) == ('bool', True) and agg_field(r, W.recnum_field) == ('int', 1)
                    and fl == ('int', 50) and stv == 'NullShape' and ver == ('int', 1000))
            if not good:
                ok = False
            desc.append("dirty=%s rec_num=%s header.file_length=%s type=%s version=%s" % (
                absint.term_str(agg_field(r, W.dirty_field)), absint.term_str(agg_field(r, W.recnum_field)),
                absint.term_str(fl) if fl else None, stv, absint.term_str(ver) if ver else None))
        ctx.ob("C09.ctor", cname, ok, "; ".join(desc), site=ctx.site_of(F, fs[0]["def"]))
