"""Check context: collects rule instances (obligations), violations, known findings; writes evidence."""
import hashlib
import json
import os
import re
import sys
import time

from . import facts as factsmod

VERIF = factsmod.VERIF
OUT = os.environ.get("SHP_OUT", VERIF)
KNOWN = os.path.join(VERIF, "known_findings.jsonl")

LEVELS = {"C06": "proof", "C18": "proof", "C19": "proof"}


class BrokenChecker(Exception):
    """The checker itself cannot give a verdict (exit 2)."""


def load_known():
    out = {}
    fixed = []
    if not os.path.exists(KNOWN):
        return out, fixed
    for ln in open(KNOWN):
        ln = ln.strip()
        if not ln or ln.startswith("#"):
            continue
        if ln.startswith("fixed:"):
            fixed.append(ln)
            continue
        d = json.loads(ln)
        if d.get("status") == "fixed":
            fixed.append(d)
            continue
        out[(d["property"], d["key"])] = d
    return out, fixed


class Ctx:
    def __init__(self, prop, tier):
        self.prop = prop
        self.tier = tier
        self.t0 = time.time()
        self.obs = []          # dict(rule, instance, ok, why, site, key)
        self._facts = {}
        self.notes = []
        self.units = {}
        self.floors = {}
        self.trusted = []
        self.assumptions = []
        self.rules_text = {}
        self.teeth = None
        self.extra = {}

    # facts ---------------------------------------------------------------------------------
    def facts(self, config="default"):
        if config not in self._facts:
            try:
                F = factsmod.load(config)
            except factsmod.ExtractionError as e:
                raise BrokenChecker(str(e))
            self._facts[config] = F
            self.units[config] = {
                "tree": F.tree,
                "facts": "extracted" if getattr(F, "fresh", False) else "reused (same tree hash)",
                "bodies": sum(1 for f in F.fns.values() if "blocks" in f and f.get("identity")),
                "instances": sum(1 for f in F.fns.values() if "blocks" in f),
                "adts": len(F.adts),
                "impls": len(F.impls),
            }
        return self._facts[config]

    # obligations ---------------------------------------------------------------------------
    def rule(self, rid, text, floor=0):
        self.rules_text[rid] = text
        self.floors[rid] = floor

    def ob(self, rule, instance, ok, why="", site=None, key=None, detail=None, trivial=False):
        """Record one rule instance.  key: stable finding key (no line numbers)."""
        if key is None:
            key = "%s|%s" % (rule, instance)
        self.obs.append({
            "rule": rule, "instance": instance, "ok": bool(ok), "why": why, "site": site,
            "key": key, "detail": detail, "trivial": trivial,
        })
        return ok

    _DELEGATE_CACHE = {}

    def delegate(self, other_prop, rules, as_rule, text, only=None, floor=1):
        """Evaluate rules of another property (same facts, same engines) and record their instances under `as_rule` of this
        property: properties overlap, and a clause of this one that is decided by a rule written for another one is claimed
        here through that rule.  `only`: optional predicate on the other rule's obligation (dict) to select instances.
        Rule instances that are known findings of the other property are not imported (they are reported there)."""
        import importlib
        if getattr(self, "is_sub", False):
            return 0            # no delegation from inside a delegated evaluation (C14 <-> C15)
        ck = (other_prop, self.tier, os.environ.get("SHP_REPO", ""))
        sub = Ctx._DELEGATE_CACHE.get(ck)
        if sub is None:
            sub = Ctx(other_prop, self.tier)
            sub.is_sub = True
            sub._facts = self._facts
            try:
                importlib.import_module("sa.rules." + other_prop).run(sub)
            except BrokenChecker:
                raise
            except Exception as e:
                sub.unanalysable(other_prop + ".engine", "rule evaluation", "internal error while analysing this tree: %r" % (e,))
                for r in rules:
                    sub.unanalysable(r, "rule evaluation", "internal error while analysing this tree: %r" % (e,))
            Ctx._DELEGATE_CACHE[ck] = sub
        self.rule(as_rule, text + " [decided by %s of %s]" % (", ".join(rules), other_prop), floor=floor)
        known, _ = load_known()
        n = 0
        for o in sub.obs:
            if o["rule"] not in rules or (only and not only(o)):
                continue
            if (other_prop, o["key"]) in known:
                continue
            n += 1
            self.ob(as_rule, "%s: %s" % (o["rule"], o["instance"]), o["ok"], o["why"], site=o["site"],
                    key="%s|%s" % (as_rule, o["key"]), trivial=o.get("trivial", False))
        return n

    def missing(self, rule, what):
        """A required anchor is missing: fail closed."""
        self.ob(rule, "anchor:" + what, False, "anchor not found in the crate (fail closed): " + what,
                key="%s|missing-anchor|%s" % (rule, what))

    def unanalysable(self, rule, what, why):
        self.ob(rule, what, False, "unanalysable: " + why, key="%s|unanalysable|%s" % (rule, what))

    def site_of(self, F, fn_def, block=None):
        f = F.identity(fn_def)
        if f is None:
            fs = F.instances(fn_def)
            f = fs[0] if fs else None
        if f is None:
            return fn_def
        if block is None or block >= len(f["blocks"]):
            return "%s:%d (%s)" % (f["file"], f["line"], fn_def)
        return "%s:%d (%s bb%d)" % (f["file"], f["blocks"][block]["term"]["ln"], fn_def, block)

    def site_of_sitetuple(self, F, site):
        if not site:
            return None
        fn_def, b = site[-1]
        s = self.site_of(F, fn_def, b)
        if len(site) > 1:
            s += " via " + " > ".join(x[0].split("::")[-1] for x in site[:-1])
        return s

    # finishing -----------------------------------------------------------------------------
    def finish(self):
        known, fixed = load_known()
        # floors
        counts = {}
        for o in self.obs:
            counts[o["rule"]] = counts.get(o["rule"], 0) + 1
        for rid, fl in self.floors.items():
            if counts.get(rid, 0) < fl:
                self.obs.append({
                    "rule": rid, "instance": "floor", "ok": False,
                    "why": "only %d instances found, floor is %d (fail closed: the rule would pass vacuously)"
                           % (counts.get(rid, 0), fl),
                    "site": None, "key": "%s|floor" % rid, "detail": None, "trivial": True})
        viol = [o for o in self.obs if not o["ok"]]
        new = []
        matched = []
        for o in viol:
            kf = known.get((self.prop, o["key"]))
            if kf:
                matched.append((o, kf))
            else:
                new.append(o)
        seen_kf = set()
        for o, kf in matched:
            if o["key"] in seen_kf:
                continue
            seen_kf.add(o["key"])
            print("KNOWN-FINDING: property=%s %s [%s]" % (self.prop, kf.get("what", o["why"]), o["key"]))
        os.makedirs(os.path.join(OUT, "reports"), exist_ok=True)
        seen_new = set()
        for o in new:
            if o["key"] in seen_new:
                continue
            seen_new.add(o["key"])
            h = hashlib.sha1(o["key"].encode()).hexdigest()[:10]
            path = os.path.join(OUT, "reports", "%s-%s.json" % (self.prop, h))
            rep = dict(o)
            rep["property"] = self.prop
            rep["rule_text"] = self.rules_text.get(o["rule"], "")
            rep["tree"] = {c: u["tree"] for c, u in self.units.items()}
            with open(path, "w") as fh:
                json.dump(rep, fh, indent=1, default=str)
            print("VIOLATION property=%s replay=%s" % (self.prop, path))
            print("  rule %s  instance %s" % (o["rule"], o["instance"]))
            if o["site"]:
                print("  at   %s" % o["site"])
            print("  why  %s" % o["why"])
        self.write_evidence(viol, new, matched)
        return 1 if new else 0

    def write_evidence(self, viol, new, matched):
        level = LEVELS.get(self.prop, "other")
        obs = self.obs
        distinct = set()
        for o in obs:
            if not o["trivial"]:
                distinct.add((o["rule"], o["instance"]))
        # proof level only stands when every obligation is discharged
        discharged = sum(1 for o in obs if o["ok"])
        if level == "proof" and discharged != len(obs):
            level = "other"
        samples = []
        per_rule = {}
        for o in obs:
            per_rule.setdefault(o["rule"], []).append(o)
        for rid, lst in sorted(per_rule.items()):
            for o in lst[:3]:
                samples.append({"rule": rid, "instance": o["instance"], "verdict": "holds" if o["ok"] else "VIOLATED",
                                "site": o["site"], "why": o["why"][:300]})
        cov = {
            "evaluations": len(obs),
            "distinct_nontrivial": len(distinct),
            "rule": "one evaluation = one rule instance (rule id, function/site/table cell) decided from the MIR facts of "
                    "/repo's current tree; non-trivial = the verdict required an engine (table extraction, abstract "
                    "interpretation, flow rule) rather than an anchor-presence or floor check; distinct by (rule, instance)",
            "samples": samples[:40],
            "obligations": len(obs),
            "discharged": discharged,
            "checker_cmd": "bin/check %s --tier %s" % (self.prop, self.tier),
            "trusted_base": self.trusted or [
                "rustc nightly MIR construction (-Zmir-opt-level=0, dev profile)",
                "sa/absint.py models of std combinators (Result/Option/iterator adaptors, Vec)",
                "byteorder read_X/write_X being inverse bijections on bit patterns",
            ],
            "explanation": "Static analysis of the type-checked MIR of /repo's working tree (no execution). "
                           "Rules: " + "; ".join("%s: %s" % (k, v) for k, v in sorted(self.rules_text.items())),
            "rules": self.rules_text,
            "instances_per_rule": {k: len(v) for k, v in per_rule.items()},
            "floors": self.floors,
            "units_analysed": self.units,
            "known_findings_matched": sorted(set(o["key"] for o, _ in matched)),
            "new_violations": sorted(set(o["key"] for o in new)),
            "exhaustive": False,
        }
        cov.update(self.extra)
        if self.teeth is not None:
            cov["teeth"] = self.teeth
        ev = {
            "property_id": self.prop,
            "tier": self.tier,
            "seed": int(os.environ.get("VERIF_SEED", "0") or 0),
            "level": level,
            "coverage": cov,
            "assumptions": self.assumptions,
            "wall_s": round(time.time() - self.t0, 3),
            "violations": len(set(o["key"] for o in new)),
        }
        os.makedirs(os.path.join(OUT, "evidence"), exist_ok=True)
        path = os.path.join(OUT, "evidence", "%s.json" % self.prop)
        tmp = path + ".tmp.%d" % os.getpid()
        with open(tmp, "w") as fh:
            json.dump(ev, fh, indent=1, default=str)
        os.replace(tmp, path)
