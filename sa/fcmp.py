"""E6 — four-point ordering domain for f64 comparisons.

A pair of doubles (a, b) is abstracted by its relation: '<', '=', '>' or 'unordered' (at least one NaN).
Functions built only from comparisons of their two arguments are evaluated over the four points by
selecting the abstract path whose branch atoms hold under the relation.
"""
from . import absint

RELS = ('<', '=', '>', 'unordered')

TRUTH = {
    'Lt': {'<': True, '=': False, '>': False, 'unordered': False},
    'Le': {'<': True, '=': True, '>': False, 'unordered': False},
    'Gt': {'<': False, '=': False, '>': True, 'unordered': False},
    'Ge': {'<': False, '=': True, '>': True, 'unordered': False},
    'Eq': {'<': False, '=': True, '>': False, 'unordered': False},
    'Ne': {'<': True, '=': False, '>': True, 'unordered': True},
}
FLIP = {'<': '>', '>': '<', '=': '=', 'unordered': 'unordered'}


def atom_truth(t, a, b, rel):
    """truth of a comparison term over (a, b) under rel, or None when t is not such a comparison"""
    if t[0] == 'un' and t[1] == 'Not':
        v = atom_truth(t[2], a, b, rel)
        return None if v is None else (not v)
    if t[0] != 'bin' or t[1] not in TRUTH:
        return None
    if t[2] == a and t[3] == b:
        return TRUTH[t[1]][rel]
    if t[2] == b and t[3] == a:
        return TRUTH[t[1]][FLIP[rel]]
    return None


def select(paths, a, b, rel):
    """paths whose every comparison atom over (a, b) holds under rel"""
    out = []
    for p in paths:
        ok = True
        for t, v in p.cons:
            tr = atom_truth(t, a, b, rel)
            if tr is None:
                continue
            want = (v != 0) if isinstance(v, int) else True     # ('not', (0,)) means true
            if isinstance(v, tuple):
                want = 0 in v[1]
                want = True if v[1] == (0,) else want
            if tr != want:
                ok = False
                break
        if ok:
            out.append(p)
    return out


def eval2(paths, a, b):
    """rel -> set of returned terms"""
    res = {}
    for rel in RELS:
        res[rel] = set(p.ret for p in select(paths, a, b, rel) if p.status == 'return')
    return res


def f64max_axiom(x, c, rel):
    """f64::max(x, c) for relation of x to c: returns the larger; if one is NaN returns the other (documented)."""
    return {'<': 'c', '=': 'either', '>': 'x', 'unordered': 'c'}[rel]


def normaliser_table(F, util, norm):
    """{rel of v to NO_DATA: 'v' | 'NO_DATA' | 'either' | '?'} for a normaliser descriptor of layout.unwrap_normaliser"""
    if norm == 'f64::max':
        return {r: {'c': 'NO_DATA', 'x': 'v', 'either': 'either'}[f64max_axiom('v', 'c', r)] for r in RELS}
    if norm == 'f64::min':
        return {'<': 'v', '=': 'either', '>': 'NO_DATA', 'unordered': 'NO_DATA'}
    if isinstance(norm, tuple) and norm[0] == 'fn':
        f = F.identity(norm[1])
        if not f or f["argc"] != 2:
            return {r: '?' for r in RELS}
        ps, _ = util.run_fn(F, f, summarise_pure=False)
        a, b = ('param', 1), ('param', 2)
        res = eval2(ps, a, b)        # relation of arg1 to arg2
        out = {}
        vpos = norm[2]
        for r in RELS:
            # r is the relation of v to NO_DATA; the function sees (arg1, arg2) = (v, ND) or (ND, v)
            rr = r if vpos == 0 else FLIP[r]
            got = res.get(rr, set())
            vt, ct = (a, b) if vpos == 0 else (b, a)
            if got == {vt}:
                out[r] = 'v'
            elif got == {ct}:
                out[r] = 'NO_DATA'
            elif got and got <= {vt, ct}:
                out[r] = 'either'
            else:
                out[r] = '?'
        return out
    return {r: '?' for r in RELS}


WANT_NORMALISED = {'<': 'NO_DATA', '=': ('NO_DATA', 'v', 'either'), '>': 'v', 'unordered': 'NO_DATA'}


def normaliser_ok(table):
    for r, want in WANT_NORMALISED.items():
        got = table.get(r)
        if isinstance(want, tuple):
            if got not in want:
                return False
        elif got != want:
            return False
    return True
