"""E4 for the writer: per-method abstract transfers derived from the MIR paths of the public methods,
and the typestate exploration of every history of the most general client.

Destinations are recognised by role (the places the I/O receivers point to inside `self`), header
groups by content (a run of writes that starts with the big-endian file code 9994).
"""
from . import absint, util
from .absint import is_agg, agg_field

SELF = ('T', ('param', 1))


def selfpath(*fields):
    return (SELF, tuple(('f', f) for f in fields))


def field_load(*fields):
    return ('load', selfpath(*fields))


class WriterFacts:
    def __init__(self, F):
        self.F = F
        self.ok = True
        self.problems = []
        adt = F.adts.get("writer::ShapeWriter")
        self.fields = {}
        if not adt:
            self.problems.append("struct writer::ShapeWriter not found")
            self.ok = False
            return
        for fld in adt["variants"][0]["fields"]:
            self.fields[fld["name"]] = fld["ty"]
        # destination fields by type: T and Option<T>
        self.shp_field = [n for n, t in self.fields.items() if t == "T"]
        self.shx_field = [n for n, t in self.fields.items() if t == "std::option::Option<T>"]
        self.dirty_field = [n for n, t in self.fields.items() if t == "bool"]
        self.header_field = [n for n, t in self.fields.items() if t == "header::Header"]
        self.recnum_field = [n for n, t in self.fields.items() if t in ("u32", "i32", "usize", "u64")]
        for nm, lst in (("shp", self.shp_field), ("shx", self.shx_field), ("header", self.header_field)):
            if len(lst) != 1:
                self.problems.append("cannot identify the %s field of ShapeWriter by type (candidates %s)" % (nm, lst))
                self.ok = False
        if not self.ok:
            return
        self.shp_field, self.shx_field, self.header_field = self.shp_field[0], self.shx_field[0], self.header_field[0]
        # dirty flag and record counter by role when their type is not unique:
        #   dirty   = the bool field finalize branches on first;  rec_num = the integer field written as the record number
        if len(self.dirty_field) != 1 or len(self.recnum_field) != 1:
            self._by_role()
        for nm, lst in (("dirty", self.dirty_field), ("rec_num", self.recnum_field)):
            if len(lst) != 1:
                self.problems.append("cannot identify the %s field of ShapeWriter (candidates %s)" % (nm, lst))
                self.ok = False
        if not self.ok:
            return
        self.dirty_field, self.recnum_field = self.dirty_field[0], self.recnum_field[0]
        self.SHP = ('ref', selfpath(self.shp_field))
        self.SHX = ('ref', (SELF, (('f', self.shx_field), ('v', 'Some'), ('f', '0'))))
        self.type_term = ('discr', field_load(self.header_field, 'shape_type'))
        self.shx_term = ('discr', field_load(self.shx_field))
        self.dirty_term = field_load(self.dirty_field)

    def _by_role(self):
        F = self.F
        fin = F.inherent_method("writer::ShapeWriter", "finalize")
        if fin and len(self.dirty_field) != 1:
            try:
                ps, _ = util.run_fn(F, fin[0])
                cand = []
                for p in ps:
                    for t, v in p.cons[:1]:
                        if t[0] == 'load' and t[1][0] == SELF and len(t[1][1]) == 1 and t[1][1][0][1] in self.dirty_field:
                            cand.append(t[1][1][0][1])
                if cand and len(set(cand)) == 1:
                    self.dirty_field = [cand[0]]
            except absint.Unanalysable:
                pass
        ws = F.inherent_method("writer::ShapeWriter", "write_shape")
        if ws and len(self.recnum_field) != 1:
            try:
                ps, _ = util.run_fn(F, ws[0])
                cand = set()
                for p in ps:
                    be = [e for e in p.io() if e[1] == 'write' and e[3].get('endian') == 'BigEndian' and e[3].get('ty') == 'i32'
                          and e[4] != ('int', 9994)]
                    # record number = the BE i32 written two primitives before the LE type code of the record
                    for e in be:
                        v = e[4][1] if e[4][0] == 'cast' else e[4]
                        if v[0] == 'load' and v[1][0] == SELF and len(v[1][1]) == 1 and v[1][1][0][1] in self.recnum_field:
                            cand.add(v[1][1][0][1])
                if len(cand) == 1:
                    self.recnum_field = [cand.pop()]
            except absint.Unanalysable:
                pass

    def dest_name(self, recv):
        if recv == self.SHP:
            return 'shp'
        if recv == self.SHX:
            return 'shx'
        return None

    # -------------------------------------------------------------------------------------
    def guards(self, p):
        g = {'type_null': None, 'shx': None, 'dirty': None}
        for t, v in p.cons:
            if t == self.type_term:
                g['type_null'] = (v == 0)
            elif t == self.shx_term:
                g['shx'] = (v == 1)
            elif t == self.dirty_term:
                g['dirty'] = (v != 0) if isinstance(v, int) else True
        return g

    def ops(self, p):
        """Ordered operations on the two destinations: list of (dest, kind, info)
        kind: 'header' (info: dict fields/bytes), 'data' (info: bytes or None=shape content), 'seek' (info: 'start0'/'end0'/term),
        'flush'.  Unknown receivers are returned with dest None."""
        out = []
        cur = None   # open header group
        for e in absint.flat_effects(p.eff):
            if e[0] == 'loop':
                continue
            if e[0] == 'call' and e[1] == 'record::WritableShape::write_to':
                cur = None
                d = self.dest_name(e[3][1]) if len(e[3]) > 1 else None
                out.append((d, 'data', {'bytes': None, 'what': 'shape content', 'site': e[4]}))
                continue
            if e[0] != 'io':
                continue
            d = self.dest_name(e[2])
            k = e[1]
            if k in ('write', 'write_all'):
                w = e[3].get('width')
                val = e[4]
                if k == 'write' and val == ('int', 9994) and e[3].get('endian') == 'BigEndian' and cur is None:
                    cur = {'dest': d, 'bytes': 0, 'prims': []}
                    out.append((d, 'header', cur))
                if cur is not None and cur['dest'] == d and cur['bytes'] < 100:
                    cur['bytes'] += w or 0
                    cur['prims'].append(e)
                    if cur['bytes'] >= 100:
                        cur = None
                    continue
                cur = None
                out.append((d, 'data', {'bytes': w, 'what': e[3].get('ty', 'bytes'), 'val': val, 'endian': e[3].get('endian'),
                                        'site': e[5]}))
            elif k == 'seek':
                cur = None
                v = e[4]
                info = absint.term_str(v)
                if is_agg(v, 'std::io::SeekFrom', 'Start') and agg_field(v, '0') == ('int', 0):
                    info = 'start0'
                elif is_agg(v, 'std::io::SeekFrom', 'End') and agg_field(v, '0') == ('int', 0):
                    info = 'end0'
                out.append((d, 'seek', info))
            elif k == 'flush':
                cur = None
                out.append((d, 'flush', None))
            else:
                cur = None
                out.append((d, k, None))
        return out

    def stores(self, p):
        out = {}
        for e in p.eff:
            if e[0] == 'store' and e[1][0] == SELF:
                out[tuple(x[1] for x in e[1][1] if x[0] == 'f')] = e[2]
        return out

    def classify(self, p):
        if p.status == 'panic':
            return 'panic'
        if p.status != 'return':
            return p.status
        if is_agg(p.ret, None, 'Ok'):
            return 'ok'
        if is_agg(p.ret, None, 'Err'):
            err = agg_field(p.ret, '0')
            if is_agg(err, 'Error', 'MismatchShapeType'):
                return 'mismatch'
            return 'err'
        return 'other'

    def method_paths(self, name, **kw):
        fs = self.F.inherent_method("writer::ShapeWriter", name)
        if not fs:
            return None, None
        f = fs[0]
        ps, I = util.run_fn(self.F, f, **kw)
        return f, ps


# ---------------------------------------------------------------------------------------------
# abstract machine for one destination

def at_start(l, c):
    return c == '0' or (c == 'end' and l == '0')


def at_end(l, c):
    return c == 'end' or (c == '0' and l == '0') or (c == '100' and l == '100')


def norm(l, c):
    if at_end(l, c):
        return (l, 'end')
    return (l, c)


def apply_op(state, kind, info):
    """state = (len class, cursor class, header_on_disk, flushed); returns (new state, violation or None)"""
    l, c, hdr, fl = state
    if kind == 'seek':
        if info == 'start0':
            return norm(l, '0') + (hdr, fl), None
        if info == 'end0':
            return (l, 'end', hdr, fl), None
        return (l, '?', hdr, fl), None
    if kind == 'flush':
        return (l, c, hdr, True), None
    if kind == 'header':
        if info['bytes'] != 100:
            return (l, '?', hdr, False), "header group is %d bytes, not 100" % info['bytes']
        if not at_start(l, c):
            return ('R' if l != '0' else '100', 'end' if at_end(l, c) else '?', 'dup', False), \
                "W2: a 100-byte header is written at cursor=%s of a destination of length class %s (not offset 0)" % (c, l)
        nl = '100' if l in ('0', '100') else 'R'
        return norm(nl, '100') + (info.get('kind', 'written'), False), None
    if kind == 'data':
        if l == '0':
            return ('R', '?', hdr, False), "W1: record bytes written before any header is in place"
        if not at_end(l, c):
            return ('R', '?', hdr, False), "W1: record bytes written at cursor=%s, not at the end (length class %s)" % (c, l)
        return ('R', 'end', hdr, False), None
    return state, None


# ---------------------------------------------------------------------------------------------
# typestate exploration under the most general client

def path_transfer(W, p):
    """Summarise one abstract path of a writer method."""
    g = W.guards(p)
    cls = W.classify(p)
    ops = W.ops(p)
    st = W.stores(p)
    # header freshness: does a store to the in-memory header / record counter follow the last header group?
    last_hdr = {}
    idx = 0
    hdr_positions = {}
    flat = list(absint.flat_effects(p.eff))
    for i, e in enumerate(flat):
        if e[0] == 'io' and e[1] == 'write' and e[4] == ('int', 9994) and e[3].get('endian') == 'BigEndian':
            d = W.dest_name(e[2])
            hdr_positions[d] = i
    stale_after = {}
    for d, pos in hdr_positions.items():
        stale_after[d] = any(e[0] == 'store' and e[1][0] == SELF and e[1][1][:1] in ((('f', W.header_field),), (('f', W.recnum_field),))
                             and e[2] != ('load', e[1]) for e in flat[pos:])
    hdr_stores = any(e[0] == 'store' and e[1][0] == SELF and e[1][1][:1] in ((('f', W.header_field),), (('f', W.recnum_field),))
                     for e in flat)
    return {'guards': g, 'class': cls, 'ops': ops, 'stores': st, 'hdr_written': hdr_positions, 'stale_after': stale_after,
            'hdr_stores': hdr_stores, 'path': p}


def compatible(tr, type_set, has_shx, dirty):
    g = tr['guards']
    if g['type_null'] is not None and g['type_null'] != (not type_set):
        return False
    if g['shx'] is not None and g['shx'] != has_shx:
        return False
    if g['dirty'] is not None and g['dirty'] != dirty:
        return False
    return True


INIT_DEST = ('0', 'end', 'none', True)


def step(W, state, tr):
    """Apply a path transfer to an abstract writer state; returns (new_state, [violations])"""
    type_set, dirty, has_shx, shp, shx = state
    viol = []
    dests = {'shp': shp, 'shx': shx}
    for d, kind, info in tr['ops']:
        if d is None:
            viol.append("operation %s on an unrecognised destination" % kind)
            continue
        if d == 'shx' and not has_shx:
            viol.append("operation on the index destination although none was given")
            continue
        if kind == 'header':
            info = dict(info)
        ns, v = apply_op(dests[d], kind, info)
        dests[d] = ns
        if v:
            viol.append("%s: %s" % (d, v))
    # header freshness
    for d in ('shp', 'shx'):
        if dests[d] is None:
            continue
        l, c, h, fl = dests[d]
        if d in tr['hdr_written']:
            h = 'stale' if tr['stale_after'].get(d) else 'current'
            if h == 'stale' and not type_set and tr['class'] == 'ok':
                h = 'placeholder'
        elif tr['hdr_stores'] and h in ('current',):
            h = 'stale'
        if h == 'dup':
            h = 'dup'
        dests[d] = (l, c, h, fl)
    st = tr['stores']
    nd = dirty
    dv = st.get((W.dirty_field,))
    if dv is not None:
        if dv[0] == 'bool':
            nd = dv[1]
        else:
            viol.append("dirty flag set to a non-constant")
    nts = type_set
    if (W.header_field, 'shape_type') in st:
        nts = True
    return (nts, nd, has_shx, dests['shp'], dests['shx']), viol


def explore(W, transfers, has_shx):
    """BFS over abstract writer states under all histories of write(first/same), write(other type), finalize.
    Returns (states: state -> shortest history, findings: list of (invariant, message, history))."""
    init = (False, True, has_shx, INIT_DEST, INIT_DEST if has_shx else None)
    seen = {init: ()}
    queue = [init]
    findings = []
    ntrans = 0
    while queue:
        s = queue.pop(0)
        hist = seen[s]
        type_set, dirty = s[0], s[1]
        for mname, label, want in (('write_shape', 'write', 'ok'), ('write_shape', 'write(other type)', 'mismatch'),
                                   ('finalize', 'finalize', 'ok')):
            if want == 'mismatch' and not type_set:
                continue
            cands = [t for t in transfers[mname] if t['class'] == want and compatible(t, type_set, has_shx, dirty)]
            if not cands and want == 'ok':
                findings.append(('totality', "no successful path of %s applies in state %s" % (mname, fmt_state(s)), hist + (label,)))
            for tr in cands:
                ntrans += 1
                ns, viol = step(W, s, tr)
                h2 = hist + (label,)
                for v in viol:
                    findings.append(('W123', v, h2))
                # method post-conditions
                if mname == 'finalize' and dirty:
                    for d, ds in (('shp', ns[3]), ('shx', ns[4])):
                        if ds is None:
                            continue
                        l, c, hd, fl = ds
                        if not (hd == 'current' and at_end(l, c) and fl):
                            findings.append(('W4', "after a successful finalize the %s destination is (len %s, cursor %s, header %s, flushed %s)"
                                             % (d, l, c, hd, fl), h2))
                    if ns[1] is not False:
                        findings.append(('W4', "a successful finalize leaves dirty = %s" % ns[1], h2))
                if mname == 'finalize' and not dirty:
                    if tr['ops'] or tr['stores']:
                        findings.append(('W6', "finalize with nothing to commit performs %d operations / %d stores"
                                         % (len(tr['ops']), len(tr['stores'])), h2))
                if mname == 'write_shape' and want == 'ok':
                    if ns[1] is not True:
                        findings.append(('W5', "a successful write leaves dirty = %s" % ns[1], h2))
                    for d, ds in (('shp', ns[3]), ('shx', ns[4])):
                        if ds is not None and not at_end(ds[0], ds[1]):
                            findings.append(('W5', "after a successful write the %s cursor is %s" % (d, ds[1]), h2))
                if want == 'mismatch':
                    if tr['ops'] or tr['stores'] or ns != s:
                        findings.append(('W7', "a rejected write performs %d operations and %d stores" % (len(tr['ops']), len(tr['stores'])), h2))
                if ns not in seen:
                    seen[ns] = h2
                    queue.append(ns)
    return seen, findings, ntrans


def fmt_state(s):
    ts, d, hs, shp, shx = s
    return "(type %s, dirty %s, shp %s, shx %s)" % ("set" if ts else "null", d, shp, shx)
