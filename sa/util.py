"""Shared helpers for the rule modules."""
import json
import os

from . import absint, facts as factsmod, mir

_spec = None


def spec():
    global _spec
    if _spec is None:
        _spec = json.load(open(os.path.join(factsmod.VERIF, "spec", "esri.json")))
        lay = _spec["layouts"]
        for k, v in list(lay.items()):
            if isinstance(v, str) and v.startswith("="):
                lay[k] = lay[v[1:]]
    return _spec


def run_fn(F, f, **kw):
    I = absint.Interp(F, **kw)
    return I.run(f), I


def variant_name(t):
    """('agg', adt, variant, ...) -> variant name"""
    if absint.is_agg(t):
        return t[2]
    return None


def scrutinee_constraint(p, scrutinee):
    """all the path's constraints on `scrutinee` combined: an int when the value is fixed, else ('not', excluded values), else None"""
    fixed, excl, seen = None, set(), False
    for t, val in p.cons:
        if t != scrutinee:
            continue
        seen = True
        if isinstance(val, int):
            fixed = val
        else:
            excl |= set(val[1])
    if fixed is not None:
        return fixed
    return ('not', tuple(sorted(excl))) if seen else None


class _Excluded(tuple):
    """the values excluded on *every* default path (a value outside it may still be excluded on some of them: use paths_for)"""


def enum_table(paths, scrutinee):
    """Decision table of a function that switches on `scrutinee` (a term): returns (rows, (excluded, default)) where
    rows: value -> list of paths whose constraints fix that value, default: the other paths, excluded: the values that no
    default path admits.  Several tests of the same scrutinee on one path (`x == A || x == B`) are combined."""
    rows = {}
    default = []
    per_path = []
    for p in paths:
        v = scrutinee_constraint(p, scrutinee)
        if isinstance(v, int):
            rows.setdefault(v, []).append(p)
        else:
            default.append(p)
            per_path.append(set(v[1]) if v is not None else set())
    excluded = None
    if per_path and any(per_path):
        common = set.intersection(*per_path) if per_path else set()
        excluded = tuple(sorted(common))
    table_default = _FilteredPaths(default, per_path)
    return rows, (excluded, table_default)


class _FilteredPaths(list):
    """default paths that remember, per path, which scrutinee values they exclude; `for_value(v)` keeps the admitting ones"""

    def __init__(self, paths, excl):
        super().__init__(paths)
        self.excl = excl

    def for_value(self, v):
        return [p for p, e in zip(self, self.excl) if v not in e]


def shapetype_discr(F):
    """name -> code, from the ADT"""
    adt = F.adts.get("ShapeType")
    if not adt:
        return None
    return {v["name"]: int(v["discr"]) for v in adt["variants"]}


def concrete_shapes(F):
    """[(self_ty, shapetype name)] for every impl of HasShapeType, from the code."""
    out = []
    for imp in F.trait_impls("record::HasShapeType"):
        for m in imp["methods"]:
            if m["name"] != "shapetype":
                continue
            f = F.fns.get(m["key"]) or F.identity(m["def"])
            if not f:
                out.append((imp["self_ty"], None, None))
                continue
            ps, _ = run_fn(F, f)
            names = set(variant_name(p.ret) for p in ps if p.status == "return")
            out.append((imp["self_ty"], names.pop() if len(names) == 1 else None, f))
    return out


def strings_in(term):
    return [t[1] for t in absint.subterms(term) if isinstance(t, tuple) and t and t[0] == "str"]


def strings_in_effects(effs):
    out = []
    for e in absint.flat_effects(effs):
        for x in e:
            if isinstance(x, tuple):
                out.extend(strings_in(x))
    return out


def short_ty(ty):
    """record::polyline::GenericPolyline<record::point::PointZ> -> GenericPolyline<PointZ>"""
    import re
    return re.sub(r"(?:[a-z_0-9]+::)+", "", ty)


SHAPE_ALIASES = {
    "Point": "Point", "PointM": "PointM", "PointZ": "PointZ",
    "GenericPolyline<Point>": "Polyline", "GenericPolyline<PointM>": "PolylineM", "GenericPolyline<PointZ>": "PolylineZ",
    "GenericPolygon<Point>": "Polygon", "GenericPolygon<PointM>": "PolygonM", "GenericPolygon<PointZ>": "PolygonZ",
    "GenericMultipoint<Point>": "Multipoint", "GenericMultipoint<PointM>": "MultipointM",
    "GenericMultipoint<PointZ>": "MultipointZ", "Multipatch": "Multipatch", "Shape": "Shape",
}


def alias(ty):
    return SHAPE_ALIASES.get(short_ty(ty), short_ty(ty))


def callers_of(F, pred, fns=None):
    """yield (fn, block, term) for calls whose declared or resolved def satisfies pred"""
    for f in (fns if fns is not None else F.identity_fns()):
        for b, t in mir.calls(f):
            d = mir.callee_decl(t)
            r = mir.callee_def(t)
            if (d and pred(d)) or (r and pred(r)):
                yield f, b, t


def call_graph(F, roots, follow_unresolved_local_traits=True, include=lambda f: True):
    """Reachable local function records from roots (records), following resolved calls and, for
    unresolved calls to local trait methods, every impl of that method (class hierarchy)."""
    seen = {}
    work = list(roots)
    trait_methods = {}
    for imp in F.impls:
        for m in imp["methods"]:
            tm = m.get("trait_method")
            if tm:
                trait_methods.setdefault(tm, []).append(m)
    while work:
        f = work.pop()
        if f is None or f["key"] in seen or "blocks" not in f:
            continue
        seen[f["key"]] = f
        for b, t in mir.calls(f):
            fn = t.get("fn")
            if not fn:
                continue
            targets = []
            r = fn.get("resolved")
            if r and r.get("has_body"):
                g = F.fns.get(r["key"])
                if g:
                    targets.append(g)
            elif fn["krate"] == F.crate and follow_unresolved_local_traits:
                for m in trait_methods.get(fn["def"], []):
                    g = F.fns.get(m["key"]) or F.identity(m["def"])
                    if g:
                        targets.append(g)
            # closures / fn items passed as arguments
            for a in t["args"]:
                if a["k"] == "const":
                    if "closure" in a:
                        g = F.fns.get(a["closure"])
                        if g:
                            targets.append(g)
                    if "fn" in a:
                        rr = a["fn"].get("resolved")
                        if rr and rr.get("has_body"):
                            g = F.fns.get(rr["key"])
                            if g:
                                targets.append(g)
            for g in targets:
                if include(g):
                    work.append(g)
        # closures constructed in the body
        for blk in f["blocks"]:
            for s in blk["stmts"]:
                if s["k"] == "assign" and s["rv"]["k"] == "agg" and s["rv"].get("ak") == "closure":
                    g = F.fns.get(s["rv"]["closure"])
                    if g and include(g):
                        work.append(g)
    return seen


def api_roots(F, self_prefixes=(), traits_for=(), free_prefixes=()):
    """Public inherent methods of types whose path starts with one of self_prefixes, all methods of trait
    impls (any trait) for those types listed in traits_for, and free functions whose def path starts with
    one of free_prefixes."""
    roots = []
    for imp in F.impls:
        st = imp["self_ty"]
        if not any(st == p or st.startswith(p + "<") for p in self_prefixes):
            continue
        if "trait" in imp and imp["trait"] not in traits_for:
            continue
        for m in imp["methods"]:
            if "trait" not in imp and m.get("vis") != "Public":
                continue
            f = F.fns.get(m["key"]) or F.identity(m["def"])
            if f:
                roots.append(f)
    for f in F.identity_fns():
        if f["kind"] == "Fn" and any(f["def"].startswith(p) for p in free_prefixes) and f.get("vis") == "Public":
            roots.append(f)
    return roots


def writer_graph(F):
    roots = api_roots(F, ("writer::ShapeWriter", "writer::Writer"), traits_for=("std::ops::Drop",))
    for imp in F.trait_impls("record::WritableShape"):
        for m in imp["methods"]:
            f = F.fns.get(m["key"])
            if f:
                roots.append(f)
    g = call_graph(F, roots, include=lambda f: f.get("krate") == F.crate and not factsmod.is_test_fn(f))
    return roots, g


def reader_graph(F):
    roots = api_roots(F, ("reader::ShapeReader", "reader::Reader", "reader::ShapeIterator", "reader::ShapeRecordIterator"),
                      traits_for=("std::iter::Iterator",), free_prefixes=("reader::read",))
    for tr in ("record::ReadableShape", "record::ConcreteReadableShape"):
        for imp in F.trait_impls(tr):
            for m in imp["methods"]:
                f = F.fns.get(m["key"])
                if f:
                    roots.append(f)
    g = call_graph(F, roots, include=lambda f: f.get("krate") == F.crate and not factsmod.is_test_fn(f))
    return roots, g


def generic_only(F, fns):
    """one record per def: its identity instance (modular analyses do not need the monomorphic copies)"""
    out = {}
    for f in fns:
        d = f["def"]
        if d in out:
            continue
        g = F.identity(d)
        if g is not None:
            out[d] = g
    return list(out.values())


def infeasible_get_none(p):
    """slice::get(i) is None iff i >= len: a path assuming both `i < len(X)` and `get(X, i) == None` is infeasible."""
    from . import affine
    nones = [t[1] for t, v in p.cons if t[0] == 'discr' and t[1][0] == 'get' and v == 0]
    for g in nones:
        for t, v in p.cons:
            if t[0] != 'bin' or t[1] not in ('Lt', 'Le'):
                continue
            for ln in (t[2], t[3]):
                if ln[0] == 'len' and affine.canon_coll(ln[1]) == affine.canon_coll(g[1]) and absint.holds(p.cons, '<', g[2], ln):
                    return True
    return False


# ---- role-based discovery of private helpers (never by their names) ---------------------------------------

def _decls(f):
    return [mir.callee_decl(t) or '' for b, t in mir.calls(f)]


def orientation_fns(F):
    """functions computing a ring's orientation: a local, non-closure fn whose body sums over the consecutive pairs of a slice
    (`windows(2)`, or the slice zipped with itself one further)"""
    out = []
    for f in F.identity_fns():
        if f.get("kind") == "Closure":
            continue
        d = _decls(f)
        pairs = any(x.endswith("::windows") for x in d) or (any(x.endswith("Iterator::zip") for x in d) and
                                                            any(x.endswith("Iterator::skip") for x in d))
        if pairs and any(x.endswith("Iterator::sum") or x.endswith("Iterator::fold") for x in d):
            out.append(f)
    return out


def closedness_fns(F):
    """functions deciding whether a ring is closed: a local, non-closure fn that takes both `first()` and `last()` of a slice"""
    out = []
    for f in F.identity_fns():
        if f.get("kind") == "Closure":
            continue
        d = _decls(f)
        if any(x.endswith("]>::first") or x.endswith("::first") for x in d) and any(x.endswith("::last") for x in d) \
                and not any(x.endswith("::push") for x in d):
            out.append(f)
    return out


def fn_refs(f):
    """every function referenced by f's MIR: callees of call terminators and fn items used as values (resolved def first)"""
    out = []

    def walk(o):
        if isinstance(o, dict):
            fn = o.get("fn")
            if isinstance(fn, dict) and "def" in fn:
                r = fn.get("resolved")
                out.append(r["def"] if r else fn["def"])
            for v in o.values():
                walk(v)
        elif isinstance(o, list):
            for v in o:
                walk(v)
    for b in f["blocks"]:
        if not b.get("cleanup"):
            walk(b)
    return out


def local_fn(F, d):
    return F.identity(d) or F.identity(d.split('::<')[0]) or F.identity(d.split('<')[0].rstrip(':'))


def reachable_defs(F, f, depth=4):
    """local functions reachable from f (calls, fn items handed on, closures), bounded depth; returns def paths"""
    seen = set()
    todo = [(f, 0)]
    while todo:
        g, d = todo.pop()
        nxt = [local_fn(F, r) for r in fn_refs(g)]
        nxt += [c for c in F.identity_fns() if c["def"].startswith(g["def"] + "::{closure")]
        for h in nxt:
            if h is None or h["def"] in seen:
                continue
            seen.add(h["def"])
            if d < depth:
                todo.append((h, d + 1))
    return seen


def index_entry_fields(F):
    """(offset field, length field) of the in-memory index entry, by role: the fields of the aggregate pushed per entry by the
    index parser that receive the first and the second big-endian i32 read (ESRI: offset, then content length)."""
    if getattr(F, "_index_entry_fields", None):
        return F._index_entry_fields
    for f in F.identity_fns():
        if f.get("kind") == "Closure" or f.get("krate") != F.crate or factsmod.is_test_fn(f):
            continue
        d = _decls(f)
        if not any(x.endswith("::push") for x in d) or "Vec<" not in f["locals"][0]["ty"] or not f["locals"][0]["ty"].startswith("std::result::Result<"):
            continue
        try:
            ps, _ = run_fn(F, f)           # helpers (one entry read by a private fn) are followed
        except Exception:
            continue
        for p in ps:
            for lp in [e for e in p.eff if e[0] == 'loop']:
                for b in lp[3]:
                    rd = [e for e in absint.flat_effects(b['eff']) if e[0] == 'io' and e[1] == 'read']
                    pushes = [e for e in b['eff'] if e[0] == 'push']
                    if len(rd) == 2 and len(pushes) == 1 and absint.is_agg(pushes[0][2]) and \
                            all(e[3].get('endian') == 'BigEndian' and e[3].get('ty') == 'i32' for e in rd):
                        names = {}
                        for k, v in pushes[0][2][4]:
                            names[v] = k
                        a, b2 = names.get(rd[0][-1]), names.get(rd[1][-1])
                        if a and b2:
                            F._index_entry_fields = (a, b2)
                            return a, b2
    return None, None
