//! shpfacts — fact extractor (engine E0).
//!
//! A rustc driver injected with RUSTC_WORKSPACE_WRAPPER.  For the crates named in
//! SHPFACTS_CRATES (default: shapefile,shp_witness) it dumps, after analysis,
//!   * every local ADT (variants, discriminants, fields),
//!   * every local impl (trait, self type, method map),
//!   * every local body at identity generic arguments, and every instance of a local (or
//!     byteorder) body reachable from those through resolved calls, as structured MIR with
//!     callees resolved by `Instance::try_resolve`.
//! Output: one JSON file  $SHPFACTS_OUT/<crate>.json  (one write per process).
#![feature(rustc_private)]
extern crate rustc_abi;
extern crate rustc_driver;
extern crate rustc_hir;
extern crate rustc_interface;
extern crate rustc_middle;
extern crate rustc_span;

use rustc_driver::Compilation;
use rustc_hir::def::DefKind;
use rustc_hir::def_id::{DefId, LOCAL_CRATE};
use rustc_middle::mir::{
    self, AggregateKind, BinOp, ConstValue, Operand, Place, ProjectionElem, Rvalue,
    StatementKind, TerminatorKind,
};
use rustc_middle::ty::{
    self, EarlyBinder, GenericArgsRef, Instance, InstanceKind, Ty, TyCtxt, TypingEnv,
};
use rustc_span::Span;
use std::collections::{HashMap, HashSet};
use std::fmt::Write as _;

// ------------------------------------------------------------------------------------------
// minimal JSON value
enum J {
    Null,
    B(bool),
    N(String),
    S(String),
    A(Vec<J>),
    O(Vec<(String, J)>),
}
fn s<T: Into<String>>(x: T) -> J {
    J::S(x.into())
}
fn n<T: std::fmt::Display>(x: T) -> J {
    J::N(format!("{}", x))
}
fn o(v: Vec<(&str, J)>) -> J {
    J::O(v.into_iter().map(|(k, v)| (k.to_string(), v)).collect())
}
impl J {
    fn write(&self, out: &mut String) {
        match self {
            J::Null => out.push_str("null"),
            J::B(b) => out.push_str(if *b { "true" } else { "false" }),
            J::N(x) => out.push_str(x),
            J::S(x) => {
                out.push('"');
                for c in x.chars() {
                    match c {
                        '"' => out.push_str("\\\""),
                        '\\' => out.push_str("\\\\"),
                        '\n' => out.push_str("\\n"),
                        '\r' => out.push_str("\\r"),
                        '\t' => out.push_str("\\t"),
                        c if (c as u32) < 0x20 => {
                            let _ = write!(out, "\\u{:04x}", c as u32);
                        }
                        c => out.push(c),
                    }
                }
                out.push('"');
            }
            J::A(v) => {
                out.push('[');
                for (i, x) in v.iter().enumerate() {
                    if i > 0 {
                        out.push(',');
                    }
                    x.write(out);
                }
                out.push(']');
            }
            J::O(v) => {
                out.push('{');
                for (i, (k, x)) in v.iter().enumerate() {
                    if i > 0 {
                        out.push(',');
                    }
                    J::S(k.clone()).write(out);
                    out.push(':');
                    x.write(out);
                }
                out.push('}');
            }
        }
    }
}

// ------------------------------------------------------------------------------------------

struct Ex<'tcx> {
    tcx: TyCtxt<'tcx>,
    seen: HashSet<String>,
    fns: Vec<(String, J)>,
    work: Vec<(Instance<'tcx>, DefId)>,
    sizes: HashMap<String, u64>,
    follow_crates: Vec<String>,
}

fn ty_s<'tcx>(t: Ty<'tcx>) -> String {
    format!("{}", t)
}

impl<'tcx> Ex<'tcx> {
    fn loc(&self, sp: Span) -> (String, usize) {
        let sm = self.tcx.sess.source_map();
        let sp = sp.source_callsite();
        let lo = sm.lookup_char_pos(sp.lo());
        let name = format!("{}", lo.file.name.prefer_local_unconditionally());
        (name, lo.line)
    }
    fn macros(&self, sp: Span) -> J {
        let mut v = vec![];
        for e in sp.macro_backtrace() {
            if let rustc_span::ExpnKind::Macro(_, name) = e.kind {
                v.push(s(name.as_str()));
            }
        }
        J::A(v)
    }

    fn inst_key(&self, inst: &Instance<'tcx>) -> String {
        let base = self.tcx.def_path_str_with_args(inst.def_id(), inst.args);
        match inst.def {
            InstanceKind::Item(_) => base,
            other => format!("{} [{}]", base, shim_name(&other)),
        }
    }

    fn follow(&self, did: DefId) -> bool {
        if did.is_local() {
            return true;
        }
        let cn = self.tcx.crate_name(did.krate);
        self.follow_crates.iter().any(|c| c == cn.as_str())
    }

    fn has_body(&self, inst: &Instance<'tcx>) -> bool {
        let did = inst.def_id();
        if !matches!(inst.def, InstanceKind::Item(_)) {
            return false;
        }
        if !matches!(
            self.tcx.def_kind(did),
            DefKind::Fn | DefKind::AssocFn | DefKind::Closure
        ) {
            return false;
        }
        self.follow(did) && self.tcx.is_mir_available(did)
    }

    fn place(&self, body: &mir::Body<'tcx>, p: &Place<'tcx>) -> J {
        let tcx = self.tcx;
        let mut pty = mir::PlaceTy::from_ty(body.local_decls[p.local].ty);
        let mut proj = vec![];
        for elem in p.projection.iter() {
            let j = match elem {
                ProjectionElem::Deref => o(vec![("k", s("deref"))]),
                ProjectionElem::Field(f, fty) => {
                    let mut name = format!("{}", f.index());
                    let mut adt = String::new();
                    if let ty::Adt(def, _) = pty.ty.kind() {
                        let vi = pty.variant_index.unwrap_or(rustc_abi::FIRST_VARIANT);
                        name = def.variant(vi).fields[f].name.to_string();
                        adt = tcx.def_path_str(def.did());
                    }
                    o(vec![
                        ("k", s("field")),
                        ("i", n(f.index())),
                        ("name", s(name)),
                        ("adt", s(adt)),
                        ("ty", s(ty_s(fty))),
                    ])
                }
                ProjectionElem::Index(l) => o(vec![("k", s("index")), ("l", n(l.index()))]),
                ProjectionElem::ConstantIndex { offset, min_length, from_end } => o(vec![
                    ("k", s("cidx")),
                    ("off", n(offset)),
                    ("min", n(min_length)),
                    ("from_end", J::B(from_end)),
                ]),
                ProjectionElem::Subslice { from, to, from_end } => o(vec![
                    ("k", s("subslice")),
                    ("from", n(from)),
                    ("to", n(to)),
                    ("from_end", J::B(from_end)),
                ]),
                ProjectionElem::Downcast(name, vi) => o(vec![
                    ("k", s("downcast")),
                    ("v", s(name.map(|x| x.to_string()).unwrap_or_default())),
                    ("vi", n(vi.index())),
                ]),
                ProjectionElem::OpaqueCast(_) => o(vec![("k", s("opaque"))]),
                ProjectionElem::UnwrapUnsafeBinder(_) => o(vec![("k", s("unbinder"))]),
            };
            proj.push(j);
            pty = pty.projection_ty(tcx, elem);
        }
        o(vec![("l", n(p.local.index())), ("proj", J::A(proj)), ("ty", s(ty_s(pty.ty)))])
    }

    fn fn_ref(&mut self, tenv: TypingEnv<'tcx>, root: DefId, did: DefId, args: GenericArgsRef<'tcx>) -> J {
        let tcx = self.tcx;
        let mut v: Vec<(&str, J)> = vec![
            ("def", s(tcx.def_path_str(did))),
            ("path", s(tcx.def_path_str_with_args(did, args))),
            ("args", J::A(args.iter().map(|a| s(format!("{}", a))).collect())),
            ("krate", s(tcx.crate_name(did.krate).as_str())),
            ("kind", s(format!("{:?}", tcx.def_kind(did)))),
        ];
        if let Some(tr) = tcx.trait_of_assoc(did) {
            v.push(("trait", s(tcx.def_path_str(tr))));
            if let Some(st) = args.types().next() {
                v.push(("self_ty", s(ty_s(st))));
            }
        }
        if let Some(imp) = tcx.impl_of_assoc(did) {
            v.push(("impl_self", s(ty_s(tcx.type_of(imp).instantiate_identity().skip_norm_wip()))));
        }
        if matches!(tcx.def_kind(did), DefKind::Ctor(..)) {
            v.push(("ctor", J::B(true)));
        }
        let resolved = std::panic::catch_unwind(std::panic::AssertUnwindSafe(|| {
            Instance::try_resolve(tcx, tenv, did, args)
        }));
        match resolved {
            Ok(Ok(Some(inst))) => {
                let key = self.inst_key(&inst);
                let hb = self.has_body(&inst);
                let mut r: Vec<(&str, J)> = vec![
                    ("def", s(tcx.def_path_str(inst.def_id()))),
                    ("key", s(key)),
                    ("local", J::B(inst.def_id().is_local())),
                    ("krate", s(tcx.crate_name(inst.def_id().krate).as_str())),
                    ("has_body", J::B(hb)),
                    ("shim", s(shim_name(&inst.def))),
                ];
                if let Some(imp) = tcx.impl_of_assoc(inst.def_id()) {
                    r.push(("impl_self", s(ty_s(tcx.type_of(imp).instantiate_identity().skip_norm_wip()))));
                    if let Some(tr) = tcx.impl_opt_trait_ref(imp) {
                        r.push(("impl_trait", s(tcx.def_path_str(tr.skip_binder().def_id))));
                    }
                }
                if hb {
                    self.work.push((inst, root));
                }
                v.push(("resolved", o(r)));
            }
            _ => {
                v.push(("resolved", J::Null));
                if !did.is_local() && self.follow(did) {
                    v.push(("mir_available", J::B(tcx.is_mir_available(did))));
                }
                // unresolved trait method of a followed crate (byteorder): dump its provided body generically
                if !did.is_local()
                    && self.follow(did)
                    && matches!(tcx.def_kind(did), DefKind::AssocFn | DefKind::Fn)
                    && tcx.is_mir_available(did)
                {
                    let gi = Instance::new_raw(did, ty::GenericArgs::identity_for_item(tcx, did));
                    v.push(("generic_body", s(self.inst_key(&gi))));
                    self.work.push((gi, did));
                }
            }
        }
        if tcx.def_path_str(did) == "std::mem::size_of" {
            if let Some(t) = args.types().next() {
                if let Ok(l) = tcx.layout_of(tenv.as_query_input(t)) {
                    v.push(("size_of", n(l.size.bytes())));
                }
            }
        }
        o(v)
    }

    /// Decode the bytes of a constant allocation as a value of type `t`: integers, field-less enums, tuples and arrays of
    /// those (a private lookup table such as `[(i32, ShapeType); 14]`).  None for anything else.
    fn decode_const(
        &self,
        tenv: TypingEnv<'tcx>,
        bytes: &[u8],
        ofs: usize,
        t: Ty<'tcx>,
        depth: usize,
    ) -> Option<J> {
        let tcx = self.tcx;
        if depth > 4 {
            return None;
        }
        let layout = tcx.layout_of(tenv.as_query_input(t)).ok()?;
        let sz = layout.size.bytes() as usize;
        if ofs + sz > bytes.len() {
            return None;
        }
        let read = |o: usize, n: usize| -> u128 {
            let mut val: u128 = 0;
            for i in 0..n.min(16) {
                val |= (bytes[o + i] as u128) << (8 * i);
            }
            val
        };
        match t.kind() {
            ty::Int(_) => {
                let size = rustc_abi::Size::from_bytes(sz as u64);
                Some(o(vec![("int", s(format!("{}", size.sign_extend(read(ofs, sz)) as i128)))]))
            }
            ty::Uint(_) => Some(o(vec![("int", s(format!("{}", read(ofs, sz))))])),
            ty::Bool => Some(o(vec![("bool", J::B(read(ofs, sz) != 0))])),
            ty::Adt(def, _) if def.is_enum() && def.variants().iter().all(|x| x.fields.is_empty()) => {
                let val = read(ofs, sz);
                let mask: u128 = if sz >= 16 { u128::MAX } else { (1u128 << (8 * sz)) - 1 };
                for (vi, d) in def.discriminants(tcx) {
                    if d.val & mask == val {
                        return Some(o(vec![(
                            "enum",
                            o(vec![
                                ("adt", s(tcx.def_path_str(def.did()))),
                                ("variant", s(def.variant(vi).name.as_str())),
                                ("vi", n(vi.index())),
                            ]),
                        )]));
                    }
                }
                None
            }
            ty::Adt(def, args) if def.is_struct() && def.all_fields().count() <= 8 => {
                // a plain struct of decodable fields (e.g. RangeInclusive<i32> { start, end, exhausted })
                let mut items = Vec::new();
                for (i, fd) in def.non_enum_variant().fields.iter().enumerate() {
                    let ft = fd.ty(tcx, args);
                    let fo = layout.fields.offset(i).bytes() as usize;
                    let fv = self.decode_const(tenv, bytes, ofs + fo, ft, depth + 1)?;
                    items.push(J::A(vec![s(fd.name.as_str()), fv]));
                }
                Some(o(vec![("struct", o(vec![("adt", s(tcx.def_path_str(def.did()))), ("fields", J::A(items))]))]))
            }
            ty::Tuple(tys) => {
                let mut items = Vec::new();
                for (i, ft) in tys.iter().enumerate() {
                    let fo = layout.fields.offset(i).bytes() as usize;
                    items.push(self.decode_const(tenv, bytes, ofs + fo, ft, depth + 1)?);
                }
                Some(o(vec![("tuple", J::A(items))]))
            }
            ty::Array(et, len) => {
                let cnt = len.try_to_target_usize(tcx)? as usize;
                if cnt > 4096 {
                    return None;
                }
                let el = tcx.layout_of(tenv.as_query_input(*et)).ok()?;
                let stride = el.size.bytes() as usize;
                let mut items = Vec::new();
                for i in 0..cnt {
                    items.push(self.decode_const(tenv, bytes, ofs + i * stride, *et, depth + 1)?);
                }
                Some(o(vec![("array", J::A(items))]))
            }
            _ => None,
        }
    }

    fn konst(&mut self, tenv: TypingEnv<'tcx>, root: DefId, c: &mir::ConstOperand<'tcx>) -> J {
        let tcx = self.tcx;
        let cty = c.const_.ty();
        let mut v: Vec<(&str, J)> = vec![("k", s("const")), ("ty", s(ty_s(cty)))];
        match cty.kind() {
            ty::FnDef(did, args) => {
                v.push(("fn", self.fn_ref(tenv, root, *did, args)));
                return o(v);
            }
            ty::Closure(did, args) => {
                let ci = Instance::new_raw(*did, args);
                v.push(("closure", s(self.inst_key(&ci))));
                if self.has_body(&ci) {
                    self.work.push((ci, root));
                }
                return o(v);
            }
            _ => {}
        }
        let ev = std::panic::catch_unwind(std::panic::AssertUnwindSafe(|| {
            c.const_.eval(tcx, tenv, c.span)
        }));
        match ev {
            Ok(Ok(ConstValue::Scalar(sc))) => {
                if let Ok(si) = sc.try_to_scalar_int() {
                    let size = si.size();
                    let bits = si.to_bits(size);
                    v.push(("bits", s(format!("{}", bits))));
                    v.push(("size", n(size.bytes())));
                    match cty.kind() {
                        ty::Int(_) => {
                            let val = size.sign_extend(bits) as i128;
                            v.push(("int", s(format!("{}", val))));
                        }
                        ty::Uint(_) => v.push(("int", s(format!("{}", bits)))),
                        ty::Bool => v.push(("bool", J::B(bits != 0))),
                        ty::Float(ty::FloatTy::F64) => {
                            let f = f64::from_bits(bits as u64);
                            v.push(("f64", s(format!("{:?}", f))));
                        }
                        ty::Char => v.push(("int", s(format!("{}", bits)))),
                        _ => {}
                    }
                } else {
                    v.push(("ptr", J::B(true)));
                    // `&CONST` of a field-less enum or an integer (e.g. `x == RingType::InnerRing`): read the pointee
                    if let (ty::Ref(_, inner, _), rustc_middle::mir::interpret::Scalar::Ptr(ptr, _)) = (cty.kind(), sc) {
                        let (prov, off) = ptr.prov_and_relative_offset();
                        if let Some(rustc_middle::mir::interpret::GlobalAlloc::Memory(alloc)) =
                            tcx.try_get_global_alloc(prov.alloc_id())
                        {
                            if let Ok(layout) = tcx.layout_of(tenv.as_query_input(*inner)) {
                                let sz = layout.size.bytes() as usize;
                                let ofs = off.bytes() as usize;
                                let a = alloc.inner();
                                // `&Some(&K)` / `&None::<&int>` (e.g. `v.first() == Some(&0)`): follow the inner pointer
                                let opt_ref_int = match inner.kind() {
                                    ty::Adt(def, args) if tcx.is_diagnostic_item(rustc_span::sym::Option, def.did()) => {
                                        match args.type_at(0).kind() {
                                            ty::Ref(_, it, _) if matches!(it.kind(), ty::Int(_) | ty::Uint(_)) => Some(*it),
                                            _ => None,
                                        }
                                    }
                                    _ => None,
                                };
                                if let Some(it) = opt_ref_int {
                                    let psz = tcx.data_layout.pointer_size().bytes() as usize;
                                    if sz == psz && ofs + sz <= a.len() {
                                        let inner_prov = a.provenance().ptrs().iter().find(|(o_, _)| o_.bytes() as usize == ofs);
                                        let raw = a.inspect_with_uninit_and_ptr_outside_interpreter(ofs..ofs + sz);
                                        let mut rel: u64 = 0;
                                        for (i, b) in raw.iter().enumerate() {
                                            rel |= (*b as u64) << (8 * i);
                                        }
                                        match inner_prov {
                                            None if rel == 0 => v.push(("ref_const", o(vec![("option", J::Null)]))),
                                            Some((_, pr)) => {
                                                if let Some(rustc_middle::mir::interpret::GlobalAlloc::Memory(al2)) =
                                                    tcx.try_get_global_alloc(pr.alloc_id())
                                                {
                                                    let a2 = al2.inner();
                                                    let b2 = a2.inspect_with_uninit_and_ptr_outside_interpreter(0..a2.len());
                                                    if let Some(j) = self.decode_const(tenv, b2, rel as usize, it, 0) {
                                                        v.push(("ref_const", o(vec![("option", j)])));
                                                    }
                                                }
                                            }
                                            _ => {}
                                        }
                                    }
                                } else if (matches!(inner.kind(), ty::Array(..) | ty::Tuple(..))
                                    || matches!(inner.kind(), ty::Adt(d, _) if d.is_struct()))
                                    && sz > 0
                                    && ofs + sz <= a.len()
                                {
                                    let bytes = a.inspect_with_uninit_and_ptr_outside_interpreter(0..a.len());
                                    if let Some(j) = self.decode_const(tenv, bytes, ofs, *inner, 0) {
                                        v.push(("ref_const", j));
                                    }
                                } else if sz > 0 && sz <= 16 && ofs + sz <= a.len() {
                                    let bytes = a.inspect_with_uninit_and_ptr_outside_interpreter(ofs..ofs + sz);
                                    let mut val: u128 = 0;
                                    for (i, b) in bytes.iter().enumerate() {
                                        val |= (*b as u128) << (8 * i);
                                    }
                                    match inner.kind() {
                                        ty::Adt(def, _) if def.is_enum() && def.variants().iter().all(|x| x.fields.is_empty()) => {
                                            for (vi, d) in def.discriminants(tcx) {
                                                let mask: u128 = if sz >= 16 { u128::MAX } else { (1u128 << (8 * sz)) - 1 };
                                                if d.val & mask == val {
                                                    v.push((
                                                        "ref_enum",
                                                        o(vec![
                                                            ("adt", s(tcx.def_path_str(def.did()))),
                                                            ("variant", s(def.variant(vi).name.as_str())),
                                                            ("vi", n(vi.index())),
                                                        ]),
                                                    ));
                                                }
                                            }
                                        }
                                        ty::Int(_) => {
                                            let size = rustc_abi::Size::from_bytes(sz as u64);
                                            v.push(("ref_int", s(format!("{}", size.sign_extend(val) as i128))));
                                        }
                                        ty::Uint(_) => v.push(("ref_int", s(format!("{}", val)))),
                                        _ => {}
                                    }
                                }
                            }
                        }
                    }
                }
            }
            Ok(Ok(ConstValue::ZeroSized)) => v.push(("zst", J::B(true))),
            Ok(Ok(cv @ ConstValue::Slice { .. })) => {
                let is_str = matches!(cty.kind(), ty::Ref(_, inner, _) if inner.is_str());
                if is_str {
                    if let Some(b) = cv.try_get_slice_bytes_for_diagnostics(tcx) {
                        v.push(("str", s(String::from_utf8_lossy(b).to_string())));
                    }
                } else {
                    v.push(("slice", J::B(true)));
                }
            }
            Ok(Ok(ConstValue::Indirect { alloc_id, offset })) => {
                v.push(("indirect", J::B(true)));
                v.push(("text", s(format!("{}", c.const_))));
                // a constant table used by value (`Self::ALL[i]`): decode it as `&CONST` tables are
                if matches!(cty.kind(), ty::Array(..) | ty::Tuple(..)) {
                    if let Some(rustc_middle::mir::interpret::GlobalAlloc::Memory(alloc)) = tcx.try_get_global_alloc(alloc_id) {
                        let a = alloc.inner();
                        let bytes = a.inspect_with_uninit_and_ptr_outside_interpreter(0..a.len());
                        if let Some(j) = self.decode_const(tenv, bytes, offset.bytes() as usize, cty, 0) {
                            v.push(("val_const", j));
                        }
                    }
                }
            }
            _ => {
                v.push(("uneval", s(format!("{}", c.const_))));
            }
        }
        o(v)
    }

    fn operand(&mut self, tenv: TypingEnv<'tcx>, root: DefId, body: &mir::Body<'tcx>, op: &Operand<'tcx>) -> J {
        match op {
            Operand::Copy(p) => o(vec![("k", s("copy")), ("p", self.place(body, p))]),
            Operand::Move(p) => o(vec![("k", s("move")), ("p", self.place(body, p))]),
            Operand::Constant(c) => self.konst(tenv, root, c),
            Operand::RuntimeChecks(rc) => {
                o(vec![("k", s("rtcheck")), ("what", s(format!("{:?}", rc)))])
            }
        }
    }

    fn rvalue(&mut self, tenv: TypingEnv<'tcx>, root: DefId, body: &mir::Body<'tcx>, rv: &Rvalue<'tcx>) -> J {
        let tcx = self.tcx;
        match rv {
            Rvalue::Use(op, _) => o(vec![("k", s("use")), ("a", self.operand(tenv, root, body, op))]),
            Rvalue::Repeat(op, cnt) => o(vec![
                ("k", s("repeat")),
                ("a", self.operand(tenv, root, body, op)),
                ("count", s(format!("{}", cnt))),
            ]),
            Rvalue::Ref(_, bk, p) => o(vec![
                ("k", s("ref")),
                ("mut", J::B(matches!(bk, mir::BorrowKind::Mut { .. }))),
                ("p", self.place(body, p)),
            ]),
            Rvalue::ThreadLocalRef(_) => o(vec![("k", s("tls"))]),
            Rvalue::RawPtr(_, p) => o(vec![("k", s("rawptr")), ("p", self.place(body, p))]),
            Rvalue::Cast(kind, op, t) => {
                let from = op.ty(body, tcx);
                o(vec![
                    ("k", s("cast")),
                    ("ck", s(format!("{:?}", kind))),
                    ("a", self.operand(tenv, root, body, op)),
                    ("from", s(ty_s(from))),
                    ("to", s(ty_s(*t))),
                ])
            }
            Rvalue::BinaryOp(op, ab) => {
                let (a, b) = &**ab;
                let aty = a.ty(body, tcx);
                o(vec![
                    ("k", s("bin")),
                    ("op", s(binop_name(*op))),
                    ("a", self.operand(tenv, root, body, a)),
                    ("b", self.operand(tenv, root, body, b)),
                    ("ty", s(ty_s(aty))),
                ])
            }
            Rvalue::UnaryOp(op, a) => o(vec![
                ("k", s("un")),
                ("op", s(format!("{:?}", op))),
                ("a", self.operand(tenv, root, body, a)),
            ]),
            Rvalue::Discriminant(p) => o(vec![("k", s("discr")), ("p", self.place(body, p))]),
            Rvalue::Aggregate(kind, ops) => {
                let mut v: Vec<(&str, J)> = vec![("k", s("agg"))];
                match &**kind {
                    AggregateKind::Array(t) => {
                        v.push(("ak", s("array")));
                        v.push(("elem", s(ty_s(*t))));
                    }
                    AggregateKind::Tuple => v.push(("ak", s("tuple"))),
                    AggregateKind::Adt(did, vi, args, _, _) => {
                        let def = tcx.adt_def(*did);
                        let var = def.variant(*vi);
                        v.push(("ak", s("adt")));
                        v.push(("adt", s(tcx.def_path_str(*did))));
                        v.push(("adt_args", J::A(args.iter().map(|a| s(format!("{}", a))).collect())));
                        v.push(("variant", s(var.name.as_str())));
                        v.push(("vi", n(vi.index())));
                        v.push(("is_enum", J::B(def.is_enum())));
                        v.push((
                            "fields",
                            J::A(var.fields.iter().map(|f| s(f.name.as_str())).collect()),
                        ));
                    }
                    AggregateKind::Closure(did, args) => {
                        let ci = Instance::new_raw(*did, args);
                        v.push(("ak", s("closure")));
                        v.push(("closure", s(self.inst_key(&ci))));
                        v.push(("def", s(tcx.def_path_str(*did))));
                        if self.has_body(&ci) {
                            self.work.push((ci, root));
                        }
                    }
                    AggregateKind::RawPtr(..) => v.push(("ak", s("rawptr"))),
                    _ => v.push(("ak", s("other"))),
                }
                let opsj: Vec<J> = ops.iter().map(|x| self.operand(tenv, root, body, x)).collect();
                v.push(("ops", J::A(opsj)));
                o(v)
            }
            Rvalue::CopyForDeref(p) => o(vec![("k", s("use")), ("a", o(vec![("k", s("copy")), ("p", self.place(body, p))]))]),
            Rvalue::WrapUnsafeBinder(..) => o(vec![("k", s("other")), ("text", s("wrapbinder"))]),
        }
    }

    fn emit_body(&mut self, inst: Instance<'tcx>, root: DefId) {
        let tcx = self.tcx;
        let key = self.inst_key(&inst);
        if !self.seen.insert(key.clone()) {
            return;
        }
        let did = inst.def_id();
        let tenv = TypingEnv::post_analysis(tcx, root);
        let gbody = tcx.optimized_mir(did);
        let is_identity = inst.args == ty::GenericArgs::identity_for_item(tcx, did)
            || (matches!(inst.def, InstanceKind::Item(_))
                && tcx.def_path_str_with_args(did, ty::GenericArgs::identity_for_item(tcx, did)) == key);
        let body: mir::Body<'tcx> = match inst.try_instantiate_mir_and_normalize_erasing_regions(
            tcx,
            tenv,
            EarlyBinder::bind(gbody.clone()),
        ) {
            Ok(b) => b,
            Err(_) => {
                self.fns.push((key.clone(), o(vec![("key", s(key)), ("error", s("normalize"))])));
                return;
            }
        };
        let (file, line) = self.loc(body.span);
        let mut names: HashMap<usize, String> = HashMap::new();
        for vdi in body.var_debug_info.iter() {
            if let mir::VarDebugInfoContents::Place(p) = &vdi.value {
                if p.projection.is_empty() {
                    names.entry(p.local.index()).or_insert(vdi.name.to_string());
                }
            }
        }
        let locals: Vec<J> = body
            .local_decls
            .iter_enumerated()
            .map(|(l, d)| {
                let mut v = vec![("ty", s(ty_s(d.ty)))];
                if let Some(nm) = names.get(&l.index()) {
                    v.push(("name", s(nm.clone())));
                }
                if let ty::Adt(def, _) = d.ty.kind() {
                    v.push(("adt", s(tcx.def_path_str(def.did()))));
                }
                o(v)
            })
            .collect();

        let mut blocks = vec![];
        for (_bb, data) in body.basic_blocks.iter_enumerated() {
            let mut stmts = vec![];
            for st in data.statements.iter() {
                match &st.kind {
                    StatementKind::Assign(b) => {
                        let (p, rv) = &**b;
                        let (_, ln) = self.loc(st.source_info.span);
                        stmts.push(o(vec![
                            ("k", s("assign")),
                            ("p", self.place(&body, p)),
                            ("rv", self.rvalue(tenv, root, &body, rv)),
                            ("ln", n(ln)),
                        ]));
                    }
                    StatementKind::SetDiscriminant { place, variant_index } => {
                        stmts.push(o(vec![
                            ("k", s("setdiscr")),
                            ("p", self.place(&body, place)),
                            ("vi", n(variant_index.index())),
                        ]));
                    }
                    StatementKind::Intrinsic(i) => {
                        stmts.push(o(vec![("k", s("intrinsic")), ("text", s(format!("{:?}", i)))]));
                    }
                    _ => {}
                }
            }
            let term = data.terminator();
            let (_, tln) = self.loc(term.source_info.span);
            let mut t: Vec<(&str, J)> = vec![("ln", n(tln))];
            let macs = self.macros(term.source_info.span);
            if let J::A(ref v) = macs {
                if !v.is_empty() {
                    t.push(("mac", macs));
                }
            }
            match &term.kind {
                TerminatorKind::Goto { target } => {
                    t.push(("k", s("goto")));
                    t.push(("target", n(target.index())));
                }
                TerminatorKind::SwitchInt { discr, targets } => {
                    t.push(("k", s("switch")));
                    t.push(("discr", self.operand(tenv, root, &body, discr)));
                    t.push(("dty", s(ty_s(discr.ty(&body, tcx)))));
                    let signed = matches!(discr.ty(&body, tcx).kind(), ty::Int(_));
                    let size = tcx
                        .layout_of(tenv.as_query_input(discr.ty(&body, tcx)))
                        .map(|l| l.size)
                        .ok();
                    let tv: Vec<J> = targets
                        .iter()
                        .map(|(val, bb)| {
                            let vs = match (signed, size) {
                                (true, Some(sz)) => format!("{}", sz.sign_extend(val) as i128),
                                _ => format!("{}", val),
                            };
                            J::A(vec![s(vs), n(bb.index())])
                        })
                        .collect();
                    t.push(("targets", J::A(tv)));
                    t.push(("otherwise", n(targets.otherwise().index())));
                }
                TerminatorKind::Return => t.push(("k", s("return"))),
                TerminatorKind::Unreachable => t.push(("k", s("unreachable"))),
                TerminatorKind::UnwindResume => t.push(("k", s("resume"))),
                TerminatorKind::UnwindTerminate(_) => t.push(("k", s("terminate"))),
                TerminatorKind::Drop { place, target, .. } => {
                    t.push(("k", s("drop")));
                    t.push(("p", self.place(&body, place)));
                    t.push(("target", n(target.index())));
                }
                TerminatorKind::Call { func, args, destination, target, .. } => {
                    t.push(("k", s("call")));
                    let fty = func.ty(&body, tcx);
                    match fty.kind() {
                        ty::FnDef(cd, cargs) => {
                            t.push(("fn", self.fn_ref(tenv, root, *cd, cargs)));
                        }
                        _ => {
                            t.push(("indirect", self.operand(tenv, root, &body, func)));
                            t.push(("fnty", s(ty_s(fty))));
                        }
                    }
                    let mut av = vec![];
                    for a in args.iter() {
                        let aty = a.node.ty(&body, tcx);
                        // closures / fn items reachable through argument *types*
                        self.scan_ty_for_callables(aty, root);
                        av.push(self.operand(tenv, root, &body, &a.node));
                    }
                    t.push(("args", J::A(av)));
                    t.push(("dest", self.place(&body, destination)));
                    t.push(("target", target.map(|b| n(b.index())).unwrap_or(J::Null)));
                }
                TerminatorKind::Assert { cond, expected, msg, target, .. } => {
                    t.push(("k", s("assert")));
                    t.push(("cond", self.operand(tenv, root, &body, cond)));
                    t.push(("expected", J::B(*expected)));
                    let (mk, mops): (String, Vec<J>) = match &**msg {
                        mir::AssertKind::BoundsCheck { len, index } => (
                            "BoundsCheck".into(),
                            vec![self.operand(tenv, root, &body, len), self.operand(tenv, root, &body, index)],
                        ),
                        mir::AssertKind::Overflow(op, a, b) => (
                            format!("Overflow:{}", binop_name(*op)),
                            vec![self.operand(tenv, root, &body, a), self.operand(tenv, root, &body, b)],
                        ),
                        mir::AssertKind::OverflowNeg(a) => {
                            ("OverflowNeg".into(), vec![self.operand(tenv, root, &body, a)])
                        }
                        mir::AssertKind::DivisionByZero(a) => {
                            ("DivisionByZero".into(), vec![self.operand(tenv, root, &body, a)])
                        }
                        mir::AssertKind::RemainderByZero(a) => {
                            ("RemainderByZero".into(), vec![self.operand(tenv, root, &body, a)])
                        }
                        other => (format!("{:?}", other).split('(').next().unwrap_or("").split(' ').next().unwrap_or("").to_string(), vec![]),
                    };
                    t.push(("msg", s(mk)));
                    t.push(("mops", J::A(mops)));
                    t.push(("target", n(target.index())));
                }
                other => {
                    t.push(("k", s("other")));
                    t.push(("text", s(format!("{:?}", other).chars().take(80).collect::<String>())));
                }
            }
            blocks.push(o(vec![
                ("stmts", J::A(stmts)),
                ("term", J::O(t.into_iter().map(|(k, v)| (k.to_string(), v)).collect())),
                ("cleanup", J::B(data.is_cleanup)),
            ]));
        }

        let mut v: Vec<(&str, J)> = vec![
            ("key", s(key.clone())),
            ("def", s(tcx.def_path_str(did))),
            ("args", J::A(inst.args.iter().map(|a| s(format!("{}", a))).collect())),
            ("identity", J::B(is_identity)),
            ("local", J::B(did.is_local())),
            ("krate", s(tcx.crate_name(did.krate).as_str())),
            ("kind", s(format!("{:?}", tcx.def_kind(did)))),
            ("file", s(file)),
            ("line", n(line)),
            ("argc", n(body.arg_count)),
            ("root", s(tcx.def_path_str(root))),
        ];
        if matches!(tcx.def_kind(did), DefKind::Fn | DefKind::AssocFn) {
            v.push(("vis", s(format!("{:?}", tcx.visibility(did)))));
            if let Some(ld) = did.as_local() {
                v.push(("reachable", J::B(tcx.effective_visibilities(()).is_reachable(ld))));
            }
            if is_test_path(&tcx.def_path_str(did)) {
                v.push(("test", J::B(true)));
            }
        }
        if let Some(imp) = tcx.impl_of_assoc(did) {
            v.push(("impl_self", s(ty_s(tcx.type_of(imp).instantiate_identity().skip_norm_wip()))));
            if let Some(tr) = tcx.impl_opt_trait_ref(imp) {
                v.push(("impl_trait", s(tcx.def_path_str(tr.skip_binder().def_id))));
                v.push(("impl_trait_full", s(format!("{}", tr.skip_binder()))));
            }
        }
        if matches!(tcx.def_kind(did), DefKind::Closure) {
            v.push(("parent", s(tcx.def_path_str(tcx.typeck_root_def_id(did)))));
        }
        v.push(("locals", J::A(locals)));
        v.push(("blocks", J::A(blocks)));
        self.fns.push((key, o(v)));
    }

    fn scan_ty_for_callables(&mut self, t: Ty<'tcx>, root: DefId) {
        match t.kind() {
            ty::Closure(did, args) => {
                let ci = Instance::new_raw(*did, args);
                if self.has_body(&ci) {
                    self.work.push((ci, root));
                }
            }
            ty::Ref(_, inner, _) => self.scan_ty_for_callables(*inner, root),
            ty::Adt(_, args) => {
                for a in args.types() {
                    self.scan_ty_for_callables(a, root);
                }
            }
            _ => {}
        }
    }

    fn adts(&mut self) -> J {
        let tcx = self.tcx;
        let mut out = vec![];
        for ld in tcx.iter_local_def_id() {
            let did = ld.to_def_id();
            let dk = tcx.def_kind(did);
            if !matches!(dk, DefKind::Struct | DefKind::Enum) {
                continue;
            }
            let def = tcx.adt_def(did);
            let mut discrs: HashMap<usize, String> = HashMap::new();
            if def.is_enum() {
                for (vi, d) in def.discriminants(tcx) {
                    let sz = rustc_abi::Size::from_bytes(
                        tcx.layout_of(TypingEnv::fully_monomorphized().as_query_input(d.ty))
                            .map(|l| l.size.bytes())
                            .unwrap_or(8),
                    );
                    let val = if d.ty.is_signed() {
                        format!("{}", sz.sign_extend(d.val) as i128)
                    } else {
                        format!("{}", d.val)
                    };
                    discrs.insert(vi.index(), val);
                }
            }
            let mut vars = vec![];
            for (vi, var) in def.variants().iter_enumerated() {
                let fields: Vec<J> = var
                    .fields
                    .iter()
                    .map(|f| {
                        o(vec![
                            ("name", s(f.name.as_str())),
                            ("ty", s(ty_s(tcx.type_of(f.did).instantiate_identity().skip_norm_wip()))),
                            ("vis", s(format!("{:?}", f.vis))),
                        ])
                    })
                    .collect();
                vars.push(o(vec![
                    ("name", s(var.name.as_str())),
                    ("vi", n(vi.index())),
                    ("discr", discrs.get(&vi.index()).map(|d| s(d.clone())).unwrap_or(J::Null)),
                    ("fields", J::A(fields)),
                ]));
            }
            let (file, line) = self.loc(tcx.def_span(did));
            out.push(o(vec![
                ("path", s(tcx.def_path_str(did))),
                ("kind", s(if def.is_enum() { "enum" } else { "struct" })),
                ("vis", s(format!("{:?}", tcx.visibility(did)))),
                ("variants", J::A(vars)),
                ("file", s(file)),
                ("line", n(line)),
            ]));
        }
        J::A(out)
    }

    fn impls(&mut self) -> J {
        let tcx = self.tcx;
        let mut out = vec![];
        for ld in tcx.iter_local_def_id() {
            let did = ld.to_def_id();
            if !matches!(tcx.def_kind(did), DefKind::Impl { .. }) {
                continue;
            }
            let self_ty = tcx.type_of(did).instantiate_identity().skip_norm_wip();
            let mut v: Vec<(&str, J)> = vec![("self_ty", s(ty_s(self_ty)))];
            if let ty::Adt(def, _) = self_ty.kind() {
                v.push(("self_adt", s(tcx.def_path_str(def.did()))));
            }
            if let Some(tr) = tcx.impl_opt_trait_ref(did) {
                let tr = tr.skip_binder();
                v.push(("trait", s(tcx.def_path_str(tr.def_id))));
                v.push(("trait_full", s(format!("{}", tr))));
                v.push(("trait_args", J::A(tr.args.iter().map(|a| s(format!("{}", a))).collect())));
            }
            let mut ms = vec![];
            for it in tcx.associated_items(did).in_definition_order() {
                if !matches!(it.kind, ty::AssocKind::Fn { .. }) {
                    continue;
                }
                let mdid = it.def_id;
                let idargs = ty::GenericArgs::identity_for_item(tcx, mdid);
                let mut mv: Vec<(&str, J)> = vec![
                    ("name", s(it.name().as_str())),
                    ("def", s(tcx.def_path_str(mdid))),
                    ("key", s(tcx.def_path_str_with_args(mdid, idargs))),
                    ("vis", s(format!("{:?}", tcx.visibility(mdid)))),
                ];
                if let Some(tm) = it.trait_item_def_id() {
                    mv.push(("trait_method", s(tcx.def_path_str(tm))));
                }
                ms.push(o(mv));
            }
            v.push(("methods", J::A(ms)));
            let (file, line) = self.loc(tcx.def_span(did));
            v.push(("file", s(file)));
            v.push(("line", n(line)));
            out.push(o(v));
        }
        J::A(out)
    }
}

fn is_test_path(p: &str) -> bool {
    p.contains("::tests::") || p.contains("::test::") || p.contains("test_geo_types") || p.starts_with("tests::")
}

fn shim_name(k: &InstanceKind<'_>) -> &'static str {
    match k {
        InstanceKind::Item(_) => "item",
        InstanceKind::Intrinsic(_) => "intrinsic",
        InstanceKind::VTableShim(_) => "vtable_shim",
        InstanceKind::ReifyShim(..) => "reify_shim",
        InstanceKind::FnPtrShim(..) => "fnptr_shim",
        InstanceKind::Virtual(..) => "virtual",
        InstanceKind::ClosureOnceShim { .. } => "closure_once_shim",
        InstanceKind::DropGlue(..) => "drop_glue",
        InstanceKind::CloneShim(..) => "clone_shim",
        _ => "other_shim",
    }
}

fn binop_name(op: BinOp) -> String {
    format!("{:?}", op)
}

struct Cb;
impl rustc_driver::Callbacks for Cb {
    fn after_analysis<'tcx>(
        &mut self,
        _c: &rustc_interface::interface::Compiler,
        tcx: TyCtxt<'tcx>,
    ) -> Compilation {
        let krate = tcx.crate_name(LOCAL_CRATE).to_string();
        let wanted = std::env::var("SHPFACTS_CRATES").unwrap_or("shapefile,shp_witness".into());
        if !wanted.split(',').any(|c| c == krate) {
            return Compilation::Continue;
        }
        let outdir = match std::env::var("SHPFACTS_OUT") {
            Ok(d) => d,
            Err(_) => return Compilation::Continue,
        };
        // do not dump unit-test builds of the crate (cargo check never makes them, but be safe)
        let follow = std::env::var("SHPFACTS_FOLLOW").unwrap_or("byteorder".into());
        let mut ex = Ex {
            tcx,
            seen: HashSet::new(),
            fns: vec![],
            work: vec![],
            sizes: HashMap::new(),
            follow_crates: follow.split(',').map(|x| x.to_string()).collect(),
        };
        let adts = ex.adts();
        let impls = ex.impls();
        let mut roots = vec![];
        for ldid in tcx.hir_body_owners() {
            let did = ldid.to_def_id();
            if !matches!(tcx.def_kind(did), DefKind::Fn | DefKind::AssocFn | DefKind::Closure) {
                continue;
            }
            roots.push(did);
        }
        for did in roots.iter() {
            let root = tcx.typeck_root_def_id(*did);
            let inst = Instance::new_raw(*did, ty::GenericArgs::identity_for_item(tcx, *did));
            ex.work.push((inst, root));
        }
        let mut steps = 0usize;
        while let Some((inst, root)) = ex.work.pop() {
            steps += 1;
            if steps > 200_000 {
                break;
            }
            ex.emit_body(inst, root);
        }
        // layouts of interest
        let mut sizes = vec![];
        for ld in tcx.iter_local_def_id() {
            let did = ld.to_def_id();
            if matches!(tcx.def_kind(did), DefKind::Struct) && tcx.generics_of(did).is_empty() {
                let t = tcx.type_of(did).instantiate_identity().skip_norm_wip();
                if let Ok(l) = tcx.layout_of(TypingEnv::fully_monomorphized().as_query_input(t)) {
                    sizes.push((tcx.def_path_str(did), n(l.size.bytes())));
                }
            }
        }
        let _ = &ex.sizes;
        let fns = std::mem::take(&mut ex.fns);
        let doc = J::O(vec![
            ("crate".to_string(), s(krate.clone())),
            ("rustc".to_string(), s(option_env!("CFG_VERSION").unwrap_or("nightly"))),
            ("adts".to_string(), adts),
            ("impls".to_string(), impls),
            ("sizes".to_string(), J::O(sizes)),
            ("fns".to_string(), J::O(fns)),
        ]);
        let mut out = String::with_capacity(1 << 24);
        doc.write(&mut out);
        let path = format!("{}/{}.json", outdir, krate);
        let tmp = format!("{}.tmp.{}", path, std::process::id());
        std::fs::write(&tmp, out).expect("write facts");
        std::fs::rename(&tmp, &path).expect("rename facts");
        Compilation::Continue
    }
}

fn main() {
    let mut args: Vec<String> = std::env::args().collect();
    // RUSTC_WORKSPACE_WRAPPER passes the real rustc as argv[1]
    if args.len() > 1 && (args[1].ends_with("rustc") || args[1].contains("/rustc")) {
        args.remove(1);
    }
    rustc_driver::run_compiler(&args, &mut Cb);
}
