//! Witness crate for the static checks of /verif (see DESIGN.md §2.3).
//!
//! 1. `compile_fail` doctests with compiling twins: facts the borrow checker already enforces and that the
//!    typestate engine relies on to bound the set of histories it explores.
//! 2. `macros`: one function per form of the exported macros; the fact extractor analyses this crate too, so
//!    "every macro form reaches the ring-closing constructors" is decided on resolved callees of the expansion.
//! 3. `controls`: deliberately bad code that every zero-expected-count rule must flag (a rule that does not flag
//!    its control is a broken checker, never a pass).

/// `write_shapes` consumes the writer: nothing can follow it in a history.
/// ```compile_fail,E0382
/// let mut w = shapefile::ShapeWriter::new(std::io::Cursor::new(Vec::<u8>::new()));
/// let pts = vec![shapefile::Point::new(0.0, 0.0)];
/// w.write_shapes(&pts).unwrap();
/// w.finalize().unwrap(); // use after move
/// ```
/// Compiling twin (differs only by the offending line):
/// ```
/// let w = shapefile::ShapeWriter::new(std::io::Cursor::new(Vec::<u8>::new()));
/// let pts = vec![shapefile::Point::new(0.0, 0.0)];
/// w.write_shapes(&pts).unwrap();
/// ```
pub struct WriteShapesConsumes;

/// A live `ShapeIterator` borrows the reader mutably: no `seek` / `read_nth_shape` can interleave with it.
/// ```compile_fail,E0499
/// fn f(r: &mut shapefile::ShapeReader<std::io::Cursor<Vec<u8>>>) {
///     let mut it = r.iter_shapes();
///     let _ = r.seek(0); // second mutable borrow while `it` is alive
///     let _ = it.next();
/// }
/// ```
/// Compiling twin:
/// ```
/// fn f(r: &mut shapefile::ShapeReader<std::io::Cursor<Vec<u8>>>) {
///     let mut it = r.iter_shapes();
///     let _ = it.next();
///     let _ = r.seek(0);
/// }
/// ```
pub struct IteratorBorrowsReader;

/// `ShapeReader::read` consumes the reader.
/// ```compile_fail,E0382
/// fn f(r: shapefile::ShapeReader<std::io::Cursor<Vec<u8>>>) {
///     let _ = r.read();
///     let _ = r.shape_count(); // use after move
/// }
/// ```
/// Compiling twin:
/// ```
/// fn f(r: shapefile::ShapeReader<std::io::Cursor<Vec<u8>>>) {
///     let _ = r.shape_count();
///     let _ = r.read();
/// }
/// ```
pub struct ReadConsumesReader;

/// The fields of a polygon are private: rings cannot be swapped behind the constructors' back.
/// ```compile_fail,E0616
/// let p = shapefile::Polygon::new(shapefile::PolygonRing::Outer(vec![shapefile::Point::new(0.0, 0.0)]));
/// let _ = &p.rings; // private field
/// ```
/// Compiling twin:
/// ```
/// let p = shapefile::Polygon::new(shapefile::PolygonRing::Outer(vec![shapefile::Point::new(0.0, 0.0)]));
/// let _ = p.rings();
/// ```
pub struct PolygonFieldsPrivate;

pub mod macros {
    //! One function per form of `polygon!` / `multipatch!`.  Every coordinate literal is distinct and says where it belongs:
    //! vertex i has x = 10i+1, y = 10i+2, then (by type) z = 10i+3, m = 10i+4, or m = 10i+3 for the XYM type — the checker reads
    //! the points the expansion builds and compares each field with the literal written at that position.
    use shapefile::{multipatch, polygon};

    pub fn polygon_struct_xy() -> shapefile::Polygon {
        polygon! { Outer({x: 1.0, y: 2.0}, {x: 11.0, y: 12.0}, {x: 21.0, y: 22.0}) }
    }
    pub fn polygon_tuple_xy() -> shapefile::Polygon {
        polygon! { Outer((1.0, 2.0), (11.0, 12.0), (21.0, 22.0)), Inner((31.0, 32.0), (41.0, 42.0), (51.0, 52.0)) }
    }
    pub fn polygon_struct_xym() -> shapefile::PolygonM {
        polygon! { Outer({x: 1.0, y: 2.0, m: 3.0}, {x: 11.0, y: 12.0, m: 13.0}, {x: 21.0, y: 22.0, m: 23.0}) }
    }
    pub fn polygon_tuple_xym() -> shapefile::PolygonM {
        polygon! { Outer((1.0, 2.0, 3.0), (11.0, 12.0, 13.0), (21.0, 22.0, 23.0)) }
    }
    pub fn polygon_struct_xyzm() -> shapefile::PolygonZ {
        polygon! { Outer({x: 1.0, y: 2.0, z: 3.0, m: 4.0}, {x: 11.0, y: 12.0, z: 13.0, m: 14.0}, {x: 21.0, y: 22.0, z: 23.0, m: 24.0}) }
    }
    pub fn polygon_tuple_xyzm() -> shapefile::PolygonZ {
        polygon! { Outer((1.0, 2.0, 3.0, 4.0), (11.0, 12.0, 13.0, 14.0), (21.0, 22.0, 23.0, 24.0)) }
    }
    pub fn multipatch_struct() -> shapefile::Multipatch {
        multipatch! { OuterRing({x: 1.0, y: 2.0, z: 3.0, m: 4.0}, {x: 11.0, y: 12.0, z: 13.0, m: 14.0}, {x: 21.0, y: 22.0, z: 23.0, m: 24.0}) }
    }
    pub fn multipatch_tuple() -> shapefile::Multipatch {
        multipatch! { FirstRing((1.0, 2.0, 3.0, 4.0), (11.0, 12.0, 13.0, 14.0), (21.0, 22.0, 23.0, 24.0)) }
    }
}

/// Deliberately bad code: every zero-expected-count rule must flag its control.
pub mod controls {
    use byteorder::{LittleEndian, ReadBytesExt, WriteBytesExt};
    use std::io::{Read, Write};

    /// C12.short control: a short write would lose bytes.
    pub fn control_short_write<W: Write>(dest: &mut W, buf: &[u8]) -> std::io::Result<usize> {
        dest.write(buf)
    }
    /// C13.short control: a short read is taken for a full one.
    pub fn control_short_read<R: Read>(src: &mut R, buf: &mut [u8]) -> std::io::Result<usize> {
        src.read(buf)
    }
    /// error discipline control: the result of a fallible write is dropped.
    pub fn control_dropped_error<W: Write>(dest: &mut W) -> Result<(), shapefile::Error> {
        let _ = dest.write_i32::<LittleEndian>(7);
        Ok(())
    }
    /// error discipline control: `.ok()` swallows the error.
    pub fn control_ok_swallow<R: Read>(src: &mut R) -> Result<i32, shapefile::Error> {
        Ok(src.read_i32::<LittleEndian>().ok().unwrap_or(0))
    }
    /// C07.arith control: unchecked doubling of a value read from the input.
    pub fn control_tainted_mul<R: Read>(src: &mut R) -> std::io::Result<i32> {
        let n = src.read_i32::<LittleEndian>()?;
        Ok(n * 2)
    }
    /// C17.alloc control: capacity taken from a declared count.
    pub fn control_tainted_alloc<R: Read>(src: &mut R) -> std::io::Result<Vec<u64>> {
        let n = src.read_i32::<LittleEndian>()?;
        Ok(Vec::with_capacity(n as usize))
    }
    /// C07.panics control: unwrap on an I/O result.
    pub fn control_unwrap<R: Read>(src: &mut R) -> i32 {
        src.read_i32::<LittleEndian>().unwrap()
    }
    /// accumulator control: a fold whose closure forgets the accumulator loses every error but the last.
    pub fn control_fold_drops_error<W: Write>(dest: &mut W, codes: &[i32]) -> std::io::Result<()> {
        codes
            .iter()
            .fold(Ok(()), |_, c| dest.write_i32::<LittleEndian>(*c))
    }
    /// discarding-consumer control: the Results of a fallible closure are counted, not looked at.
    pub fn control_count_discards<W: Write>(dest: &mut W, codes: &[i32]) -> usize {
        codes.iter().map(|c| dest.write_i32::<LittleEndian>(*c)).count()
    }
    /// C20.order control: a reordering adaptor on a coordinate path.
    pub fn control_reorder(v: Vec<shapefile::Point>) -> Vec<shapefile::Point> {
        v.into_iter().rev().collect()
    }
}
