# extra registrations for bin/mkmanifest (exec'd there)
reg("C06", "proof",
    "table extraction (E1) + abstract interpretation of the conversion/dispatch functions",
    "Complete decision over finite tables: Shape::shapetype (14 arms), the 13 HasShapeType impls against the From<T> for Shape "
    "wrapping relation, the 14 arms of Shape::read_from (code -> content reader -> variant), the blanket typed reader's "
    "match/mismatch paths for every code, the 13 From/TryFrom pairs with their error fields, and the bulk conversion's "
    "error propagation. All obligations discharged on the repaired tree (fix commit 0b3e257 in /repo).")
reg("C18", "proof",
    "effect summaries + linear forms over (#parts, sum of part lengths) (E2): coefficient equality, no solving",
    "For each of the 13 writable types the linear form of size_in_bytes() equals, coefficient by coefficient, the byte count of "
    "the abstract effect summary of write_to() (loops contribute trip count x body), hence for every shape; both equal the ESRI "
    "size formula; write_shape stores ((size + 4) / 2) as i32 and emits record number, length, 4-byte code, shape in that order on "
    "one destination. 13 + 13 + per-path obligations, all discharged.",
    note=TRUST + "; a for loop over a slice runs once per element; usize arithmetic in size_in_bytes does not overflow")
reg("C12", "other",
    "abstract fault enumeration per fallible call site (E3 error discipline), who-may-call bans, flow rules on finalize",
    "Necessary structural conditions, decided for every call site rather than for sampled failure points: each of the ~130 "
    "fallible call sites on the writer call graph (I/O primitives, seeks, flushes, local helpers, dbase calls) is made to fail "
    "in the abstract interpreter and every abstract path through it must return that error (Drop::drop excepted, as the property "
    "says); no unwrap/expect/panic on the graph; finalize clears `dirty` only after its last I/O and on no failing path, and "
    "starts each destination with an absolute seek (retry independence); no Write::write anywhere, byteorder writes via "
    "write_all. Not decided: byte equality of retried output (argued from these clauses), BufWriter deferring errors.")
reg("C13", "other",
    "abstract fault enumeration per fallible call site (E3 error discipline) on the reader call graph, who-may-call bans",
    "Necessary structural conditions for every call site: each fallible call on the reader graph (read primitives, seeks, "
    "header/record/index readers, dbase iterator) is made to fail abstractly and every path through it must return the error "
    "in an error position (Err / Some(Err)); hence no error becomes end-of-iteration and no shape is built from a failed read; "
    "no partial-read API (Read::read etc.) anywhere; byteorder reads via read_exact. Not decided: equality of the shapes "
    "returned before the cut with the originals (C01), panics on malformed counts (C07).")
