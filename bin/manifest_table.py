# extra registrations for bin/mkmanifest (exec'd there)
reg("C06", "proof",
    "table extraction (E1) + abstract interpretation of the conversion/dispatch functions",
    "Complete decision over finite tables: Shape::shapetype (14 arms), the 13 HasShapeType impls against the From<T> for Shape "
    "wrapping relation, the 14 arms of Shape::read_from (code -> content reader -> variant), the blanket typed reader's "
    "match/mismatch paths for every code, the 13 From/TryFrom pairs with their error fields, and the bulk conversion's "
    "error propagation. All obligations discharged on the repaired tree (fix commit 0b3e257 in /repo).")
reg("C18", "proof",
    "effect summaries + linear forms over (#parts, sum of part lengths) (E2): coefficient equality, no solving",
    "For each of the 13 writable types the linear form of size_in_bytes() equals, coefficient by coefficient, the byte count of "
    "the abstract effect summary of write_to() (loops contribute trip count x body), hence for every shape; both equal the ESRI "
    "size formula; write_shape stores ((size + 4) / 2) as i32 and emits record number, length, 4-byte code, shape in that order on "
    "one destination. 13 + 13 + per-path obligations, all discharged.",
    note=TRUST + "; a for loop over a slice runs once per element; usize arithmetic in size_in_bytes does not overflow")
