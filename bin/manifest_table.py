# extra registrations for bin/mkmanifest (exec'd there)
reg("C06", "proof",
    "table extraction (E1) + abstract interpretation of the conversion/dispatch functions",
    "Complete decision over finite tables: Shape::shapetype (14 arms), the 13 HasShapeType impls against the From<T> for Shape "
    "wrapping relation, the 14 arms of Shape::read_from (code -> content reader -> variant), the blanket typed reader's "
    "match/mismatch paths for every code, the 13 From/TryFrom pairs with their error fields, and the bulk conversion's "
    "error propagation. All obligations discharged on the repaired tree (fix commit 0b3e257 in /repo).")
reg("C18", "proof",
    "effect summaries + linear forms over (#parts, sum of part lengths) (E2): coefficient equality, no solving",
    "For each of the 13 writable types the linear form of size_in_bytes() equals, coefficient by coefficient, the byte count of "
    "the abstract effect summary of write_to() (loops contribute trip count x body), hence for every shape; both equal the ESRI "
    "size formula; write_shape stores ((size + 4) / 2) as i32 and emits record number, length, 4-byte code, shape in that order on "
    "one destination. 13 + 13 + per-path obligations, all discharged.",
    note=TRUST + "; a for loop over a slice runs once per element; usize arithmetic in size_in_bytes does not overflow")
reg("C12", "other",
    "abstract fault enumeration per fallible call site (E3 error discipline), who-may-call bans, flow rules on finalize",
    "Necessary structural conditions, decided for every call site rather than for sampled failure points: each of the ~130 "
    "fallible call sites on the writer call graph (I/O primitives, seeks, flushes, local helpers, dbase calls) is made to fail "
    "in the abstract interpreter and every abstract path through it must return that error (Drop::drop excepted, as the property "
    "says); no unwrap/expect/panic on the graph; finalize clears `dirty` only after its last I/O and on no failing path, and "
    "starts each destination with an absolute seek (retry independence); no Write::write anywhere, byteorder writes via "
    "write_all. Not decided: byte equality of retried output (argued from these clauses), BufWriter deferring errors.")
reg("C13", "other",
    "abstract fault enumeration per fallible call site (E3 error discipline) on the reader call graph, who-may-call bans",
    "Necessary structural conditions for every call site: each fallible call on the reader graph (read primitives, seeks, "
    "header/record/index readers, dbase iterator) is made to fail abstractly and every path through it must return the error "
    "in an error position (Err / Some(Err)); hence no error becomes end-of-iteration and no shape is built from a failed read; "
    "no partial-read API (Read::read etc.) anywhere; byteorder reads via read_exact. Not decided: equality of the shapes "
    "returned before the cut with the originals (C01), panics on malformed counts (C07).")
TS = ("typestate fixpoint over abstract writer states (E4) whose transfer functions are derived from the abstract paths of "
      "write_shape/finalize, plus flow rules on path order")
reg("C09", "other", TS,
    "Necessary invariants checked in every abstract writer state reachable under ALL histories of {write, write(other type), "
    "finalize} (fixpoint, not a bound), with and without an index: headers only at offset 0, record bytes/index entries only at "
    "the end after a header (W1-W3), finalize post-condition (current header, cursor at end, flushed, dirty cleared), write "
    "post-condition, finalize-without-changes does nothing, drop = finalize, write_shapes = write_shape per item with `?`, "
    "constructor state. The defect 'finalize before first write duplicates the header' was found by this fixpoint (history "
    "new; finalize; write) and repaired in /repo (021d4a9). Not decided: byte equality itself (argued from the invariants).")
reg("C10", "other", TS + "; who-writes rule; abstract fault enumeration on write_shape_and_record",
    "The first write stores S::shapetype() into the header and nothing else in the crate assigns that field; on every path of "
    "write_shape returning the mismatch error there is no destination operation and no store through self, and the error names "
    "(file type, offered type); a rejected write is the identity on every reachable abstract state; in "
    "write_shape_and_record a failing write_shape never reaches the row write.")
reg("C11", "other", TS,
    "Commit discipline as invariants of every reachable state: append-only records/entries and headers only at 0 (all "
    "histories), lengths and counters advanced only after the bytes they describe were emitted, no seek outside finalize and "
    "the header reservation, the placeholder header declares the constructors' 50 words, finalize's per-destination sequence "
    "is exactly seek(0), header, seek(end), flush. The step from these invariants to 'any persisted prefix shows a prefix of "
    "the shapes' is argued in DESIGN.md, byte-level cuts are not enumerated.")
reg("C04", "other",
    "abstract paths of write_shape/finalize and of the index parser; linear forms for the length and count formulas (E2)",
    "The index entry is (BE running length before the record, BE content length) with the increment after the emission; the "
    ".shx header equals the .shp header except for the length, which in linear form is 50 + 4*(rec_num-1) with rec_num "
    "counting successful writes; the reader parses two BE i32 per entry and its count formula composed with the writer's "
    "length formula is the identity; shape_count = index length, read_nth_shape_as is None iff i >= len and seeks to "
    "2*offset[i], size_hint forwards the index iterator's hint. 'Iteration = random access' is C14 + C15.")
reg("C14", "other",
    "finite-atom path rules on the abstract paths of ShapeIterator::next and ShapeReader::seek (E3)",
    "On every abstract path of next(): a None result with an index possibly present passes through the index iterator being "
    "exhausted; every path from an obtained index entry to the record read either carries 2*offset == counter or seeks to "
    "Start(2*offset) and sets the counter; exactly one entry is consumed per item; random access seeks to the same expression. "
    "The pinned tree violated the first clause (records dropped when index order differs from physical order); repaired in "
    "/repo (b4da246). Not decided: that the record found at the offset decodes correctly (C03).")
reg("C15", "other",
    "typestate of the source position derived from the abstract paths of the reader's public methods (E4)",
    "Position classes after each public method are derived from its last absolute seek/reads; checked: opening consumes "
    "exactly 100 bytes, random access starts with an absolute seek and ends at byte 100, shape_count/header have no effect and "
    "the index is never reassigned, Reader::seek forwards one index to both files, and R1: every state in which a new iteration "
    "can start is at byte 100 or the iterator re-synchronises. R1 fails on the pinned tree after seek(k) and after a previous "
    "iteration (three KNOWN-FINDING entries, defect D4: needs the reader to carry position state, not a small repair). Exact "
    "item sequences are not decided.")
reg("C08", "other",
    "flow rules and abstract fault enumeration on write_shape_and_record / ShapeRecordIterator::next; who-may-call on from_path",
    "Structural necessary conditions: the complete writer writes the shape then the row and returns both errors; commit order "
    "(no fallible call after the first irreversible commit without compensation) — violated on the pinned tree by the row write "
    "after the committed shape (KNOWN-FINDING D8, not a small repair); paired iteration pulls exactly one shape and one row per "
    "item and ends when either side ends; writer and reader derive sibling names with the same extension literals, the .dbf is "
    "mandatory and the .shx optional for the readers. Nothing inside dbase is decided.")
reg("C05", "other",
    "field tables from ADTs (E1), four-point f64 ordering domain (E6), index-set coverage of the fold loops (E3)",
    "Premises of the exact-box induction, checked for every impl and constructor: each of the six shrink/grow impls updates "
    "exactly the f64 fields of its point type, field f from (self.f, other.f), through a function that the four-point ordering "
    "domain shows to be min (shrink) / max (grow); every public multi-vertex constructor seeds the box with vertex [0] and folds "
    "shrink->min and grow->max over index sets that cover every vertex of every part; accessor tables (box ranges, [v,v], [0,0] "
    "for no-data); grow_from_shape's (dimension, index, function, guard) table, the sentinel installation and finalize's "
    "zeroing rule. Not decided: NaN coordinates and the header M range of multipatch/no-data files (excluded by the property); "
    "the induction itself is prose.")
reg("C07", "other",
    "taint + interval analysis over abstract paths of the reader call graph (E5); progress rule on the iterators (E3)",
    "Every overflow/bounds/division check of the dev profile, every panic!/debug_assert!/unwrap and every allocation reachable "
    "from the reader API is inventoried (one instance per function, operation and operand role) and must be shown in range by "
    "intervals propagated from the read primitives under the path's guards; iterator item paths must advance a well-founded "
    "measure; reader loops must be collection-driven or read-driven. The pinned tree had 50 genuine findings (negative counts, "
    "lengths >= 2^30 doubled in i32, offset differences, a debug_assert on offsets, capacity from negative counts, no progress "
    "after an error without index); they were repaired in /repo by three fix: commits (3f7b05f, fbe4e97, efa6a4d), recorded as "
    "fixed: lines in known_findings.jsonl, and the check now holds with no known finding: any unchecked operation on a value "
    "derived from the input is reported. Not decided: stack depth, panics inside dbase, allocation failure.")
reg("C17", "other",
    "taint + interval analysis of allocation sizes on the reader call graph (E5)",
    "Decides the structural necessary condition 'no allocation is sized by a count declared in the input without a bound': every "
    "with_capacity / vec![_; n] on the reader graph must be untainted, constant-bounded or sized by a collection already in "
    "memory, and every push in a reader loop must be paid for by a read of the same iteration or iterate an in-memory "
    "collection. The 8 genuine findings of the pinned tree were repaired by fix: commit ee4331f (reservations capped at "
    "MAX_PREALLOCATED_ELEMENTS = 1024 elements; growth by push, paid for by reads); the check now holds with no known finding. "
    "The 64x multiplier is a runtime quantity and is not decided.")
reg("C16", "other",
    "abstract paths of the ring/patch constructors: effect whitelist, reversal table (E1), polynomial identity of the orientation sum (E2)",
    "Structural clauses decided on every path of the constructors: every GenericPolygon constructor routes every ring through "
    "close-then-orient before the box and the aggregate; closing pushes exactly one copy of vertex [0] and only for an open ring; "
    "the only mutations of a ring's vector are that push and a whole-vector reverse; reversal exactly on (Outer, computed Inner) "
    "and (Inner, computed Outer), computed on the closed ring; the per-edge term of the orientation sum expands to "
    "c(x1y0 - x0y1) + telescoping with c > 0 and negative => inner; Multipatch::with_parts closes exactly the four ring kinds. "
    "Not decided: floating-point rounding of the area (the property restricts orientation to exactly representable "
    "coordinates).")
reg("C20", "other",
    "dispatch tables (E1), slot binding of coordinates, blacklist who-may-call rule, loop-body tables for hole grouping, "
    "four-point f64 ordering domain for dim/nth (E6) — all in the geo-types,geo-traits configuration",
    "Structural clauses for every variant and impl: Shape<->Geometry dispatch tables with their refusals (Err, never a panic), "
    "Multipatch strips/fans refused, x->x / y->y binding with z = 0 and m = NO_DATA defaults for all 12 point/coord conversions, "
    "no reordering or dropping adaptor in any collection conversion, hole-grouping tables (outer flushes and opens, inner joins "
    "the pending polygon) for polygons and multipatches, and for the six CoordTrait impls over the four orderings of m against "
    "NO_DATA: dim() = n implies nth_or_panic(i) returns field i without panicking for i < n. The NaN case of PointZ violated the "
    "last clause and was repaired in /repo (ecfa6df). Not decided: round-trip equality of coordinate values.")
reg("C02", "other",
    "abstract layouts of the 13 record writers and of the header writer (E2) compared with the hand-transcribed ESRI layouts; "
    "typestate invariants (E4) for contiguity",
    "Independent oracle = spec/esri.json (shares nothing with the library). Decided for every type and every part/point count: "
    "the header writer emits the 13 ESRI header fields with the right width, endianness and binding (100 bytes, version only from "
    "Default); each of the 13 write_to layouts (primitive kinds, endianness, the field each value is copied from, repetitions "
    "and the count field that governs them) equals the ESRI layout; part offsets are prefix sums from 0; patch kind codes are "
    "0..5; record number = counter, content length per C18, running length += words + 4, type code = file type; records are "
    "contiguous (typestate W1-W3). Not decided: that an independent decoder recovers the same doubles (byteorder's bit "
    "semantics are trusted).", note=TRUST + "; spec/esri.json transcribed correctly from the whitepaper")
reg("C03", "other",
    "abstract layouts of the 13 record readers under both valuations of the optional-M atom (E2), linear size forms, "
    "decision tables (E1), call-graph reachability (E3)",
    "Independent oracle = spec/esri.json. Decided for all 14 codes, both optional layouts and all counts: each reader's abstract "
    "layouts are exactly the ESRI layout with and (where optional) without the M block, every value landing in the field ESRI "
    "assigns to that position and every repetition governed by the count read for it; the computed record sizes equal the ESRI "
    "byte counts as linear forms and the M block is read exactly when the declared size equals the with-M size, rejected "
    "exactly when it equals neither; absent measures are NO_DATA (created so, never stored), present ones pass through "
    "max(v, NO_DATA); 14-way dispatch, null shape reads nothing, patch kind table 0..5 with InvalidPatchType otherwise; no "
    "indexing/asserting constructor is reachable from the reader, the record number is ignored; sequential iteration stops "
    "exactly at twice the declared length. Not decided: equality of decoded and encoded doubles; non-conformant input (C07).",
    note=TRUST + "; spec/esri.json transcribed correctly from the whitepaper")
reg("C01", "other",
    "encoder/decoder symmetry of abstract layouts (E2) for all 13 types and both framing layers, part-offset algebra, "
    "four-point ordering domain for the measure normalisation (E6), reversal/classification tables (E1)",
    "Oracle = the sibling implementation. Decided for every type and every part/point count (the quantifier the suite cannot "
    "reach): writer layout = reader layout on the M-present valuation, item by item, with every value copied from / stored to the "
    "same field path (slot binding, no arithmetic on coordinates) and every repetition governed by the count the writer derived "
    "from the same collection; header, record header and type code pairs agree; the reader's part iterator turns prefix-sum "
    "offsets back into lengths that telescope to NumPoints; measures of multi-vertex shapes go through max(v, NO_DATA) only "
    "(single points raw); the reader's ring classification uses the constructors' orientation function and identity table; "
    "record framing hands the content reader exactly the announced size; patch kind tables compose to the identity and "
    "patch i pairs with part i. Not decided: bit-level inverse property of byteorder, the BufWriter/BufReader route, counts >= 2^31.")
