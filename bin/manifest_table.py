# extra registrations for bin/mkmanifest (exec'd there)
reg("C06", "proof",
    "table extraction (E1) + abstract interpretation of the conversion/dispatch functions",
    "Complete decision over finite tables: Shape::shapetype (14 arms), the 13 HasShapeType impls against the From<T> for Shape "
    "wrapping relation, the 14 arms of Shape::read_from (code -> content reader -> variant), the blanket typed reader's "
    "match/mismatch paths for every code, the 13 From/TryFrom pairs with their error fields, and the bulk conversion's "
    "error propagation. All obligations discharged on the repaired tree (fix commit 0b3e257 in /repo).")
